----------------------------- MODULE BufferImpl -----------------------------
(***************************************************************************)
(* Statement-level model of ST::buffer<T> as written in st_charbuffer.h:   *)
(* the three members m_chars (a pointer), m_size and the in-object array   *)
(* m_data[L], the heap with new[]/delete[], and `new` as a step that may   *)
(* throw.  TLC checks that the representation it reaches always abstracts  *)
(* to a valid BufferPool state (readable, terminated, exclusively owned,   *)
(* nothing leaked or freed twice) and holds the value last written.        *)
(*                                                                         *)
(* Variant = "fixed" is the code as it stands in /repo; Variant = "asis"   *)
(* is the code before the repairs of moved-from objects and of failed      *)
(* allocations - kept as a negative control: TLC must find the defects.    *)
(***************************************************************************)
EXTENDS BufferPool, Integers

CONSTANTS Slots, L, Lens, Units, NB, Variant, WithFaults

ASSUME L >= 1 /\ NB >= Cardinality(Slots) + 1

Zeros == [i \in 1..L |-> 0]
Vals == UNION {[1..n -> Units] : n \in Lens}

(* pointers *)
PData(s) == <<"data", s>>
PHeap(id) == <<"heap", id>>
IsHeapPtr(p) == p[1] = "heap"

VARIABLES obj,      \* slot -> [live, chars, size, data]
          heap,     \* block id -> [live, mem]   (mem: sequence of units, capacity = Len(mem))
          want,     \* ghost: slot -> expected value, or "any" (unspecified by contract)
          err,      \* ghost: "none" | "bad free" | "double free"
          act       \* ghost: last action
vars == <<obj, heap, want, err, act>>
View == <<obj, heap, err>>

AnyV == [k |-> "any", v |-> <<>>]
ValV(v) == [k |-> "val", v |-> v]
DeadObj == [live |-> FALSE, chars |-> PData(0), size |-> 0, data |-> Zeros]
FreeBlk == [live |-> FALSE, mem |-> <<>>]

Init == /\ obj = [s \in Slots |-> DeadObj]
        /\ heap = [id \in 1..NB |-> FreeBlk]
        /\ want = [s \in Slots |-> AnyV]
        /\ err = "none" /\ act = "init"

Reffed(o) == o.size >= L
FreeId(h) == CHOOSE id \in 1..NB : ~h[id].live /\ \A j \in 1..NB : ~h[j].live => id <= j
CanAlloc(h) == \E id \in 1..NB : ~h[id].live
Junk(n) == [i \in 1..n |-> 9]                     \* fresh memory holds garbage

(* write sequence v at the start of array m *)
Put(m, v) == [i \in 1..Len(m) |-> IF i <= Len(v) THEN v[i] ELSE m[i]]
Term(m, n) == [m EXCEPT ![n + 1] = 0]

(* delete[] p : returns <<heap', err'>> *)
Delete(h, e, p) ==
    IF ~IsHeapPtr(p) THEN <<h, "bad free">>
    ELSE IF ~h[p[2]].live THEN <<h, "double free">>
    ELSE <<[h EXCEPT ![p[2]] = FreeBlk], e>>

(* read n units through pointer p as seen from the current obj/heap (only  *)
(* meaningful when Readable)                                               *)
Mem(o, h, p) == IF IsHeapPtr(p) THEN h[p[2]].mem ELSE o[p[2]].data
Cap(o, h, p) == IF IsHeapPtr(p) THEN (IF h[p[2]].live THEN Len(h[p[2]].mem) ELSE 0)
                ELSE IF p[2] \in Slots THEN L ELSE 0

---------------------------------------------------------------------------
(* Each operation computes the next <<obj, heap, err>> from the statements  *)
(* of the member function; `ok` says whether `new` succeeded.               *)

(* buffer(const char_T *data, size_t size) / buffer(size_t count, char_T fill) *)
Ctor(d, v, ok) ==
    LET n == Len(v) IN
    /\ ~obj[d].live
    /\ IF n >= L
       THEN IF ok THEN /\ CanAlloc(heap)
                       /\ LET id == FreeId(heap) IN
                          /\ heap' = [heap EXCEPT ![id] = [live |-> TRUE, mem |-> Term(Put(Junk(n + 1), v), n)]]
                          /\ obj' = [obj EXCEPT ![d] = [live |-> TRUE, chars |-> PHeap(id), size |-> n, data |-> Zeros]]
                          /\ want' = [want EXCEPT ![d] = ValV(v)]
               ELSE UNCHANGED <<obj, heap, want>>          \* constructor threw: no object
       ELSE /\ obj' = [obj EXCEPT ![d] = [live |-> TRUE, chars |-> PData(d), size |-> n, data |-> Term(Put(Zeros, v), n)]]
            /\ want' = [want EXCEPT ![d] = ValV(v)]
            /\ UNCHANGED heap
    /\ UNCHANGED err

(* buffer(const buffer &copy) *)
CopyCtor(d, s, ok) ==
    LET c == obj[s] IN
    /\ d # s /\ ~obj[d].live /\ c.live
    /\ IF Reffed(c)
       THEN IF ok THEN /\ CanAlloc(heap)
                       /\ LET id == FreeId(heap)
                              src == SubSeq(Mem(obj, heap, c.chars), 1, c.size) IN
                          /\ heap' = [heap EXCEPT ![id] = [live |-> TRUE, mem |-> Term(Put(Junk(c.size + 1), src), c.size)]]
                          /\ obj' = [obj EXCEPT ![d] = [live |-> TRUE, chars |-> PHeap(id), size |-> c.size, data |-> Zeros]]
                          /\ want' = [want EXCEPT ![d] = want[s]]
               ELSE UNCHANGED <<obj, heap, want>>
       ELSE /\ obj' = [obj EXCEPT ![d] = [live |-> TRUE, chars |-> PData(d), size |-> c.size, data |-> c.data]]
            /\ want' = [want EXCEPT ![d] = want[s]]
            /\ UNCHANGED heap
    /\ UNCHANGED err

(* buffer(buffer &&move) noexcept *)
MoveCtor(d, s) ==
    LET m == obj[s]
        nd == [live |-> TRUE, chars |-> IF m.size >= L THEN m.chars ELSE PData(d), size |-> m.size, data |-> m.data]
        ns == IF Variant = "fixed"
              THEN [m EXCEPT !.size = 0, !.chars = PData(s), !.data = [m.data EXCEPT ![1] = 0]]
              ELSE [m EXCEPT !.size = 0]
    IN
    /\ d # s /\ ~obj[d].live /\ m.live
    /\ obj' = [obj EXCEPT ![d] = nd, ![s] = ns]
    /\ want' = [want EXCEPT ![d] = want[s], ![s] = AnyV]
    /\ UNCHANGED <<heap, err>>

(* ~buffer() *)
Dtor(s) ==
    LET o == obj[s]
        r == IF Reffed(o) THEN Delete(heap, err, o.chars) ELSE <<heap, err>> IN
    /\ o.live
    /\ heap' = r[1] /\ err' = r[2]
    /\ obj' = [obj EXCEPT ![s] = DeadObj]
    /\ want' = [want EXCEPT ![s] = AnyV]

(* clear() *)
ClearObj(o, s) == [o EXCEPT !.chars = PData(s), !.size = 0, !.data = Zeros]
Clear(s) ==
    LET o == obj[s]
        r == IF Reffed(o) THEN Delete(heap, err, o.chars) ELSE <<heap, err>> IN
    /\ o.live
    /\ heap' = r[1] /\ err' = r[2]
    /\ obj' = [obj EXCEPT ![s] = ClearObj(o, s)]
    /\ want' = [want EXCEPT ![s] = ValV(<<>>)]

(* operator=(const buffer &copy) *)
CopyAssign(d, s, ok) ==
    LET o == obj[d]  c == obj[s] IN
    /\ o.live /\ c.live
    /\ IF d = s THEN UNCHANGED <<obj, heap, want, err>>
       ELSE
         LET r  == IF Reffed(o) THEN Delete(heap, err, o.chars) ELSE <<heap, err>>
             o1 == IF Reffed(o)
                   THEN IF Variant = "fixed"
                        THEN [o EXCEPT !.chars = PData(d), !.data = [o.data EXCEPT ![1] = 0], !.size = 0]
                        ELSE [o EXCEPT !.size = 0]
                   ELSE o
             h1 == r[1]
         IN
         /\ err' = r[2]
         /\ IF Reffed(c)
            THEN IF ok
                 THEN /\ CanAlloc(h1)
                      /\ LET id == FreeId(h1)
                             src == SubSeq(Mem(obj, heap, c.chars), 1, c.size) IN
                         /\ heap' = [h1 EXCEPT ![id] = [live |-> TRUE, mem |-> Term(Put(Junk(c.size + 1), src), c.size)]]
                         /\ obj' = [obj EXCEPT ![d] = [o1 EXCEPT !.chars = PHeap(id), !.size = c.size]]
                         /\ want' = [want EXCEPT ![d] = want[s]]
                 ELSE /\ heap' = h1                         \* new[] threw here
                      /\ obj' = [obj EXCEPT ![d] = o1]
                      /\ want' = [want EXCEPT ![d] = IF Reffed(o) THEN ValV(<<>>) ELSE want[d]]
            ELSE /\ heap' = h1
                 /\ obj' = [obj EXCEPT ![d] = [o1 EXCEPT !.data = c.data, !.chars = PData(d), !.size = c.size]]
                 /\ want' = [want EXCEPT ![d] = want[s]]

(* operator=(buffer &&move) noexcept *)
MoveAssign(d, s) ==
    LET o == obj[d]  m == obj[s] IN
    /\ o.live /\ m.live
    /\ IF d = s
       THEN /\ obj' = [obj EXCEPT ![d] = IF ~Reffed(o) THEN [o EXCEPT !.chars = PData(d)] ELSE o]
            /\ want' = [want EXCEPT ![d] = AnyV]            \* content not guaranteed after self-move
       ELSE IF Variant = "fixed"
            THEN LET nd == [o EXCEPT !.chars = IF m.size >= L THEN m.chars ELSE PData(d), !.size = m.size, !.data = m.data]
                     ns == [m EXCEPT !.chars = IF o.size >= L THEN o.chars ELSE PData(s), !.size = o.size, !.data = o.data]
                 IN /\ obj' = [obj EXCEPT ![d] = nd, ![s] = ns]
                    /\ want' = [want EXCEPT ![d] = want[s], ![s] = AnyV]
            ELSE LET nd == [o EXCEPT !.chars = IF m.size >= L THEN m.chars ELSE PData(d), !.size = m.size, !.data = m.data]
                     ns == [m EXCEPT !.chars = o.chars, !.size = o.size]
                 IN /\ obj' = [obj EXCEPT ![d] = nd, ![s] = ns]
                    /\ want' = [want EXCEPT ![d] = want[s], ![s] = AnyV]
    /\ UNCHANGED <<heap, err>>

(* allocate(size) ; fill = 0 means no fill (content unspecified) *)
Allocate(s, n, fill, ok) ==
    LET o == obj[s] IN
    /\ o.live
    /\ IF Variant = "fixed"
       THEN LET r  == IF Reffed(o) THEN Delete(heap, err, o.chars) ELSE <<heap, err>>
                o1 == ClearObj(o, s)
                h1 == r[1]
            IN /\ err' = r[2]
               /\ IF n >= L
                  THEN IF ok
                       THEN /\ CanAlloc(h1)
                            /\ LET id == FreeId(h1)
                                   body == IF fill = 0 THEN Junk(n + 1) ELSE Put(Junk(n + 1), [i \in 1..n |-> fill]) IN
                               /\ heap' = [h1 EXCEPT ![id] = [live |-> TRUE, mem |-> Term(body, n)]]
                               /\ obj' = [obj EXCEPT ![s] = [o1 EXCEPT !.chars = PHeap(id), !.size = n]]
                               /\ want' = [want EXCEPT ![s] = IF fill = 0 THEN AnyV ELSE ValV([i \in 1..n |-> fill])]
                       ELSE /\ heap' = h1 /\ obj' = [obj EXCEPT ![s] = o1]
                            /\ want' = [want EXCEPT ![s] = ValV(<<>>)]
                  ELSE /\ heap' = h1
                       /\ obj' = [obj EXCEPT ![s] = [o1 EXCEPT !.size = n,
                                       !.data = IF fill = 0 THEN Zeros ELSE Term(Put(Zeros, [i \in 1..n |-> fill]), n)]]
                       /\ want' = [want EXCEPT ![s] = IF fill = 0 THEN AnyV ELSE ValV([i \in 1..n |-> fill])]
       ELSE \* as-is: release / zero, record the size, then call new[]
            LET r  == IF Reffed(o) THEN Delete(heap, err, o.chars) ELSE <<heap, err>>
                o1 == IF Reffed(o) THEN [o EXCEPT !.size = n] ELSE [o EXCEPT !.size = n, !.data = Zeros]
                h1 == r[1]
            IN /\ err' = r[2]
               /\ IF n >= L
                  THEN IF ok
                       THEN /\ CanAlloc(h1)
                            /\ LET id == FreeId(h1)
                                   body == IF fill = 0 THEN Junk(n + 1) ELSE Put(Junk(n + 1), [i \in 1..n |-> fill]) IN
                               /\ heap' = [h1 EXCEPT ![id] = [live |-> TRUE, mem |-> Term(body, n)]]
                               /\ obj' = [obj EXCEPT ![s] = [o1 EXCEPT !.chars = PHeap(id)]]
                               /\ want' = [want EXCEPT ![s] = IF fill = 0 THEN AnyV ELSE ValV([i \in 1..n |-> fill])]
                       ELSE /\ heap' = h1 /\ obj' = [obj EXCEPT ![s] = o1]     \* new[] threw: size already n
                            /\ want' = [want EXCEPT ![s] = AnyV]
                  ELSE /\ heap' = h1
                       /\ obj' = [obj EXCEPT ![s] = [o1 EXCEPT !.chars = PData(s),
                                       !.data = IF fill = 0 THEN (IF Reffed(o) THEN Term(o.data, n) ELSE Zeros)
                                                ELSE Term(Put(IF Reffed(o) THEN o.data ELSE Zeros, [i \in 1..n |-> fill]), n)]]
                       /\ want' = [want EXCEPT ![s] = IF fill = 0 THEN AnyV ELSE ValV([i \in 1..n |-> fill])]

Oks == IF WithFaults THEN {TRUE, FALSE} ELSE {TRUE}

Next ==
    \/ \E d \in Slots, v \in Vals, ok \in Oks : Ctor(d, v, ok) /\ act' = <<"ctor", d, v, ok>>
    \/ \E d, s \in Slots, ok \in Oks : CopyCtor(d, s, ok) /\ act' = <<"copyctor", d, s, ok>>
    \/ \E d, s \in Slots : MoveCtor(d, s) /\ act' = <<"movector", d, s>>
    \/ \E s \in Slots : Dtor(s) /\ act' = <<"dtor", s>>
    \/ \E s \in Slots : Clear(s) /\ act' = <<"clear", s>>
    \/ \E d, s \in Slots, ok \in Oks : CopyAssign(d, s, ok) /\ act' = <<"copyassign", d, s, ok>>
    \/ \E d, s \in Slots : MoveAssign(d, s) /\ act' = <<"moveassign", d, s>>
    \/ \E s \in Slots, n \in Lens, f \in Units \cup {0}, ok \in Oks : Allocate(s, n, f, ok) /\ act' = <<"allocate", s, n, f, ok>>

Spec == Init /\ [][Next]_vars

---------------------------------------------------------------------------
(* Representation invariants, on the concrete state *)
Readable(s) ==
    LET o == obj[s] IN
    /\ (IsHeapPtr(o.chars) \/ o.chars = PData(s))            \* not inside another object
    /\ Cap(obj, heap, o.chars) >= o.size + 1                 \* live, and large enough
Terminated(s) == Mem(obj, heap, obj[s].chars)[obj[s].size + 1] = 0
ValueOf(s) == SubSeq(Mem(obj, heap, obj[s].chars), 1, obj[s].size)

LiveSlotsI == {s \in Slots : obj[s].live}

AllReadable   == \A s \in LiveSlotsI : Readable(s)
AllTerminated == \A s \in LiveSlotsI : Readable(s) => Terminated(s)
NoBadFree     == err = "none"
LastWrite     == \A s \in LiveSlotsI : Readable(s) => (want[s].k = "any" \/ ValueOf(s) = want[s].v)

(* The abstraction to BufferPool: val and storage class / owning block *)
AbsBuf == [s \in Slots |->
             IF ~obj[s].live THEN Dead
             ELSE Live(ValueOf(s), IF IsHeapPtr(obj[s].chars) THEN obj[s].chars[2] ELSE Self)]
AbsValid == AllReadable => Valid(L, AbsBuf)        \* short inside, long on the heap, no sharing
NoLeak   == AllReadable => {id \in 1..NB : heap[id].live} = Owned(AbsBuf)
=============================================================================
