SPECIFICATION Spec
CONSTANTS
  Threads = {1, 2, 3, 4}
  NOps = 3
  ScratchMode = "perCall"
INVARIANTS NoConflictingAccess ResultsEqualSequential SharedIsReadOnly
CHECK_DEADLOCK FALSE
