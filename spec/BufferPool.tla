----------------------------- MODULE BufferPool -----------------------------
(***************************************************************************)
(* A pool of ST::buffer<T> objects (C05, buffer part of C19).              *)
(*                                                                         *)
(* Abstract state of one slot: dead, or live with                          *)
(*    val  - the sequence of units the buffer holds (size() = Len(val)),   *)
(*    stor - where data() points: Self = 0 (inside the object) or the      *)
(*           positive id of a heap block.                                  *)
(* The small-buffer limit L (local_length of the element type) is an       *)
(* argument of every operator, because it differs between element types    *)
(* and is bound from the trace when recorded executions are validated.     *)
(*                                                                         *)
(* Every public operation is given as a guard and a result FUNCTION on the *)
(* pool, so that the same definition serves as a TLC action                *)
(* (buf' = Result(buf, ...)) and as the oracle for a recorded step         *)
(* (post = Result(pre, ...)).  Choices the statement leaves open are        *)
(* explicit arguments: which block id a long value is placed in (b, bd,    *)
(* bs) and the value left in a moved-from object (mv).                     *)
(***************************************************************************)
EXTENDS Naturals, Sequences, FiniteSets, TLC

Self == 0
Dead == [st |-> "dead"]
Live(v, stor) == [st |-> "live", val |-> v, stor |-> stor]
IsLive(b, s) == b[s].st = "live"
IsLong(L, v) == Len(v) >= L
Stor(L, v, blk) == IF IsLong(L, v) THEN blk ELSE Self
Place(L, v, blk) == Live(v, Stor(L, v, blk))

LiveSlots(b) == {s \in DOMAIN b : IsLive(b, s)}
HeapSlots(b) == {s \in LiveSlots(b) : b[s].stor # Self}
Owned(b)     == {b[s].stor : s \in HeapSlots(b)}     \* the heap blocks that must be live

(* ---- representation invariants (every live object, moved-from ones too) *)
StorageMode(L, b) == \A s \in LiveSlots(b) : IsLong(L, b[s].val) <=> b[s].stor # Self
Exclusive(b)      == \A s, t \in HeapSlots(b) : s # t => b[s].stor # b[t].stor
Valid(L, b)       == StorageMode(L, b) /\ Exclusive(b)

Upd(b, s, r)        == [b EXCEPT ![s] = r]
Upd2(b, s, r, t, q) == [b EXCEPT ![s] = r, ![t] = q]

(* ---- operations --------------------------------------------------------*)
(* buffer(data, size), buffer(count, fill): slot s is constructed with v   *)
ConstructG(b, s)          == ~IsLive(b, s)
ConstructR(L, b, s, v, blk) == Upd(b, s, Place(L, v, blk))

(* buffer(const buffer &)                                                  *)
CopyConstructG(b, d, s)   == d # s /\ ~IsLive(b, d) /\ IsLive(b, s)
CopyConstructR(L, b, d, s, blk) == Upd(b, d, Place(L, b[s].val, blk))

(* buffer(buffer &&): d holds the value; s is left valid with some value mv *)
MoveConstructG(b, d, s)   == d # s /\ ~IsLive(b, d) /\ IsLive(b, s)
MoveConstructR(L, b, d, s, mv, bd, bs) ==
    Upd2(b, d, Place(L, b[s].val, bd), s, Place(L, mv, bs))

(* operator=(const buffer &); d = s allowed (value kept)                   *)
CopyAssignG(b, d, s)      == IsLive(b, d) /\ IsLive(b, s)
CopyAssignR(L, b, d, s, blk) == Upd(b, d, Place(L, b[s].val, blk))

(* operator=(buffer &&); for d = s the content is unspecified (but valid)  *)
MoveAssignG(b, d, s)      == IsLive(b, d) /\ IsLive(b, s)
MoveAssignR(L, b, d, s, mv, bd, bs) ==
    IF d = s THEN Upd(b, d, Place(L, mv, bd))
    ELSE Upd2(b, d, Place(L, b[s].val, bd), s, Place(L, mv, bs))

(* allocate(n): n units of unspecified content v (Len(v) = n);             *)
(* allocate(n, fill): n units equal to fill                                *)
AllocateG(b, s)           == IsLive(b, s)
AllocateR(L, b, s, v, blk) == Upd(b, s, Place(L, v, blk))
Fill(n, c) == [i \in 1..n |-> c]

ClearG(b, s)   == IsLive(b, s)
ClearR(b, s)   == Upd(b, s, Live(<<>>, Self))
DestroyG(b, s) == IsLive(b, s)
DestroyR(b, s) == Upd(b, s, Dead)

(* ---- allocation failure (C19): std::bad_alloc reaches the caller; the   *)
(* target holds its previous value or the empty value; nothing else moves  *)
FaultTargetOk(L, pre, post, d) ==
    /\ \A s \in DOMAIN pre : s # d => post[s] = pre[s]
    /\ IF IsLive(pre, d)
       THEN post[d] = pre[d] \/ post[d] = Live(<<>>, Self)
       ELSE post[d] = Dead                    \* a constructor that threw built nothing

(* ---- properties of a transition (used as action properties in MC and    *)
(* evaluated on every validated step)                                      *)
OnlyTouched(pre, post, touched) == \A s \in DOMAIN pre : s \notin touched => post[s] = pre[s]
=============================================================================
