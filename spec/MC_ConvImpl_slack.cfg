SPECIFICATION Spec
CONSTANTS
  MaxLen8 = 4
  MaxLen16 = 3
  MaxLen32 = 3
  Slack = 1
INVARIANTS ReadsInRange
CHECK_DEADLOCK FALSE
