SPECIFICATION Spec
CONSTANTS
  Slots = {1, 2, 3}
  Targets = {1, 255, 256, 257, 512, 513, 1025, 3000}
  EmitEdges = FALSE
  WithFaults = TRUE
VIEW View
INVARIANTS TypeOK ExclusiveInv ContentIsPattern
PROPERTIES OnlyNamedObjectsChange MovedFromIsEmpty FaultsChangeNothing
ACTION_CONSTRAINT Emit
CHECK_DEADLOCK FALSE
