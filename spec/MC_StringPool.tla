---------------------------- MODULE MC_StringPool ----------------------------
(***************************************************************************)
(* Bounded instance of StringPool: model-checks the value-semantics laws   *)
(* on an abstract pool and generates the operation schedules the executor  *)
(* replays on real ST::string objects (every explored edge is emitted).    *)
(* Values are abstract here: a string is a pair <<class, origin>> where    *)
(* class is its size class (E empty, S short, L long - relative to the     *)
(* small-string limit -, R a computed result, M moved-from) and origin a   *)
(* ghost id of the write that produced the value.  Storage follows the     *)
(* design (long values own a heap block named after the slot).  The real   *)
(* lengths and bytes are the executor's business; the trace specification  *)
(* validates recorded steps against StringPool with the real bytes.        *)
(***************************************************************************)
EXTENDS StringPool, Json, TLC

CONSTANTS Slots, ConstOps, SetForms, EmitEdges, WithFaults, WithThrows

VARIABLES pool, act
vars == <<pool, act>>
Classes == {"E", "S", "L"}
ClsLen == [E |-> 0, S |-> 1, L |-> 3]          \* representative abstract lengths
Val(c, o) == IF c = "E" THEN <<>> ELSE <<c, o>>       \* the empty value is the empty sequence, as in StringPool
StorOf(s, c) == IF c \in {"L", "R"} THEN s ELSE Self      \* results may be long: model them as heap-owning
Mk(s, c, o) == Obj(Val(c, o), StorOf(s, c), s)
ClsOf(s) == IF pool[s].val = <<>> THEN "E" ELSE pool[s].val[1]
OrgOf(s) == IF pool[s].val = <<>> THEN s ELSE pool[s].val[2]

Init == pool = [s \in Slots |-> Dead] /\ act = [n |-> "init", k |-> "init"]
A(n, a, b, c, k) == [n |-> n, a |-> a, b |-> b, c |-> c, k |-> k]   \* k: kind of step

Construct(d, c) == /\ ~IsLive(pool, d) /\ pool' = [pool EXCEPT ![d] = Mk(d, c, d)]
                   /\ act' = A("construct", d, 0, c, "write")
CopyConstruct(d, s) == /\ d # s /\ ~IsLive(pool, d) /\ IsLive(pool, s)
                       /\ pool' = [pool EXCEPT ![d] = Mk(d, ClsOf(s), OrgOf(s))]
                       /\ act' = A("copyconstruct", d, s, "-", "write")
MoveConstruct(d, s) == /\ d # s /\ ~IsLive(pool, d) /\ IsLive(pool, s)
                       /\ pool' = [pool EXCEPT ![d] = Mk(d, ClsOf(s), OrgOf(s)), ![s] = Mk(s, "M", s)]
                       /\ act' = A("moveconstruct", d, s, "-", "move")
CopyAssign(d, s) == /\ IsLive(pool, d) /\ IsLive(pool, s)
                    /\ pool' = [pool EXCEPT ![d] = Mk(d, ClsOf(s), OrgOf(s))]
                    /\ act' = A("copyassign", d, s, "-", "write")
MoveAssign(d, s) == /\ IsLive(pool, d) /\ IsLive(pool, s)
                    /\ pool' = IF d = s THEN [pool EXCEPT ![d] = Mk(d, "M", d)]
                               ELSE [pool EXCEPT ![d] = Mk(d, ClsOf(s), OrgOf(s)), ![s] = Mk(s, "M", s)]
                    /\ act' = A("moveassign", d, s, "-", "move")
SetTo(d, c, f) == /\ IsLive(pool, d) /\ pool' = [pool EXCEPT ![d] = Mk(d, c, d)]
                  /\ act' = A("set:" \o f, d, 0, c, "write")
(* assignment / set / += whose argument points INTO the target's own storage (s = s.c_str() + k, ...) *)
SelfSet(d, f) == /\ IsLive(pool, d) /\ pool' = [pool EXCEPT ![d] = Mk(d, "R", d)]
                 /\ act' = A("selfset:" \o f, d, 0, "-", "write")
AppendFrom(d, s) == /\ IsLive(pool, d) /\ IsLive(pool, s)
                    /\ pool' = [pool EXCEPT ![d] = Mk(d, "R", d)]
                    /\ act' = A("append", d, s, "-", "write")
AppendLit(d, c) == /\ IsLive(pool, d) /\ pool' = [pool EXCEPT ![d] = Mk(d, "R", d)]
                   /\ act' = A("appendlit", d, 0, c, "write")
Clear(d) == /\ IsLive(pool, d) /\ pool' = [pool EXCEPT ![d] = Mk(d, "E", d)]
            /\ act' = A("clear", d, 0, "-", "write")
Destroy(d) == /\ IsLive(pool, d) /\ pool' = [pool EXCEPT ![d] = Dead]
              /\ act' = A("destroy", d, 0, "-", "write")
(* const operation op on s; k = 0 drops the results, otherwise the first is kept in dead slot k *)
ConstOp(s, op, k) == /\ IsLive(pool, s) /\ k # s /\ (IF k = 0 THEN TRUE ELSE ~IsLive(pool, k))
                     /\ pool' = IF k = 0 THEN pool ELSE [pool EXCEPT ![k] = Mk(k, "R", s)]
                     /\ act' = A("const:" \o op, s, k, "-", "const")
(* failing variants *)
ThrowSet(d, c, f) == /\ WithThrows /\ IsLive(pool, d) /\ c # "E" /\ f # "substbad" /\ UNCHANGED pool
                     /\ act' = A("throw:" \o f, d, 0, c, "throw")
ThrowConstruct(d, c) == /\ WithThrows /\ ~IsLive(pool, d) /\ c # "E" /\ UNCHANGED pool
                        /\ act' = A("throwconstruct", d, 0, c, "throw")
ThrowAppend(d, c) == /\ WithThrows /\ IsLive(pool, d) /\ c # "E" /\ UNCHANGED pool
                     /\ act' = A("throwappend", d, 0, c, "throw")
FaultSet(d, c, f, j) == /\ WithFaults /\ IsLive(pool, d) /\ c = "L"
                        /\ (UNCHANGED pool \/ pool' = [pool EXCEPT ![d] = Mk(d, "E", d)])
                        /\ act' = A("fault" \o ToString(j) \o " set:" \o f, d, 0, c, "fault")
FaultConst(s, op, j) == /\ WithFaults /\ IsLive(pool, s) /\ ClsOf(s) \in {"L", "R"} /\ UNCHANGED pool
                        /\ act' = A("fault" \o ToString(j) \o " const:" \o op, s, 0, "-", "faultconst")
FaultCopy(d, s) == /\ WithFaults /\ IsLive(pool, d) /\ IsLive(pool, s) /\ d # s /\ ClsOf(s) \in {"L", "R"}
                   /\ (UNCHANGED pool \/ pool' = [pool EXCEPT ![d] = Mk(d, "E", d)])
                   /\ act' = A("fault1 copyassign", d, s, "-", "fault")
FaultAppend(d, s, j) == /\ WithFaults /\ IsLive(pool, d) /\ IsLive(pool, s) /\ ClsOf(s) \in {"L", "R"}
                        /\ (UNCHANGED pool \/ pool' = [pool EXCEPT ![d] = Mk(d, "E", d)])
                        /\ act' = A("fault" \o ToString(j) \o " append", d, s, "-", "fault")

Next ==
    \/ \E d \in Slots, c \in Classes : Construct(d, c) \/ AppendLit(d, c) \/ ThrowConstruct(d, c) \/ ThrowAppend(d, c)
    \/ \E d, s \in Slots : CopyConstruct(d, s) \/ MoveConstruct(d, s) \/ CopyAssign(d, s) \/ MoveAssign(d, s)
                           \/ AppendFrom(d, s) \/ FaultCopy(d, s)
    \/ \E d \in Slots, c \in Classes, f \in SetForms : SetTo(d, c, f) \/ ThrowSet(d, c, f) \/ FaultSet(d, c, f, 1)
    \/ \E d \in Slots : Clear(d) \/ Destroy(d)
    \/ \E d \in Slots, f \in {"suffix", "prefix", "view", "appendself"} : SelfSet(d, f)
    \/ \E s \in Slots, op \in ConstOps, k \in Slots \cup {0} : ConstOp(s, op, k)
    \/ \E s \in Slots, op \in ConstOps, j \in 1..3 : FaultConst(s, op, j)
    \/ \E d, s \in Slots, j \in 1..2 : FaultAppend(d, s, j)
Spec == Init /\ [][Next]_vars
View == pool

---------------------------------------------------------------------------
TypeOK == \A s \in Slots : pool[s] = Dead \/ pool[s].st = "live"
StorageDisjoint == Exclusive(pool)
Named == IF act'.k = "move" THEN {act'.a, act'.b}
         ELSE IF act'.k = "const" THEN (IF act'.b = 0 THEN {} ELSE {act'.b})
         ELSE IF act'.k \in {"throw", "faultconst"} THEN {}
         ELSE {act'.a}
OnlyNamedObjectsChange == [][OnlyTouched(pool, pool', Named)]_vars
ReadsNeverMutate == [][act'.k = "const" => \A s \in Slots : IsLive(pool, s) => pool'[s] = pool[s]]_vars
FailuresChangeNothingElse ==
    [][/\ act'.k = "throw" => ThrowOk(pool, pool')
       /\ act'.k = "fault" => FaultOk(pool, pool', act'.a)
       /\ act'.k = "faultconst" => FaultOk(pool, pool', 0)]_vars

SlotKey(p, s) == IF p[s] = Dead THEN "D" ELSE IF p[s].val = <<>> THEN "E" ELSE p[s].val[1]
RECURSIVE KeyFrom(_, _)
KeyFrom(p, s) == IF s \notin Slots THEN "" ELSE SlotKey(p, s) \o "." \o KeyFrom(p, s + 1)
Emit == ~EmitEdges \/ PrintT("EDGE " \o ToJson([f |-> KeyFrom(pool, 1), t |-> KeyFrom(pool', 1), a |-> act']))
=============================================================================
