SPECIFICATION Spec
CONSTANTS
  Slots = {1, 2, 3}
  L = 3
  Tags = {"A", "B"}
  EmitEdges = FALSE
  WithFaults = TRUE
VIEW View
INVARIANTS TypeOK Representation NoLeakByConstruction
PROPERTIES OnlyNamedObjectsChange FaultsAreClean
ACTION_CONSTRAINT Emit
CHECK_DEADLOCK FALSE
