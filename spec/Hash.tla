------------------------------- MODULE Hash -------------------------------
(***************************************************************************)
(* ST::hash / ST::hash_i / std::hash<ST::string>: FNV-1a over the bytes    *)
(* (hash_i: over the ASCII-lower-cased bytes), in the width of size_t.     *)
(* TLC integers are 32-bit, so a hash value is a little-endian sequence of *)
(* 16-bit limbs (4 limbs for 64 bit, 2 limbs for 32 bit) and the multiply  *)
(* by the FNV prime is written out limb by limb.                           *)
(***************************************************************************)
EXTENDS Naturals, Sequences

W == 65536

RECURSIVE XorBits(_, _, _)
XorBits(a, b, n) == IF n = 0 THEN 0 ELSE (((a % 2) + (b % 2)) % 2) + 2 * XorBits(a \div 2, b \div 2, n - 1)
Xor8(a, b) == XorBits(a, b, 8)

(* 64 bit: offset basis cbf29ce484222325, prime 00000100000001b3 = 2^40 + 0x1b3 *)
Basis64 == <<8997, 33826, 40164, 52210>>
Mul64(h) ==
    LET r0 == h[1] * 435
        r1 == h[2] * 435 + r0 \div W
        r2 == h[3] * 435 + h[1] * 256 + r1 \div W
        r3 == h[4] * 435 + h[2] * 256 + r2 \div W
    IN <<r0 % W, r1 % W, r2 % W, r3 % W>>
(* The code xors the byte converted from plain char to size_t: where char is signed (sx) a byte >= 0x80 is  *)
(* sign-extended first, i.e. every bit above the low byte is complemented - a deviation from textbook FNV-1a    *)
(* (which xors the octet) that is modelled as written; hash VALUES are therefore platform-dependent.           *)
Step64(h, b, sx) ==
    LET lo == Xor8(h[1] % 256, b) IN
    IF sx /\ b >= 128 THEN Mul64(<<((255 - (h[1] \div 256)) * 256) + lo, 65535 - h[2], 65535 - h[3], 65535 - h[4]>>)
    ELSE Mul64(<<((h[1] \div 256) * 256) + lo, h[2], h[3], h[4]>>)

(* 32 bit: offset basis 811c9dc5, prime 01000193 = 2^24 + 0x193 *)
Basis32 == <<40389, 33052>>
Mul32(h) ==
    LET r0 == h[1] * 403
        r1 == h[2] * 403 + h[1] * 256 + r0 \div W
    IN <<r0 % W, r1 % W>>
Step32(h, b, sx) ==
    LET lo == Xor8(h[1] % 256, b) IN
    IF sx /\ b >= 128 THEN Mul32(<<((255 - (h[1] \div 256)) * 256) + lo, 65535 - h[2]>>)
    ELSE Mul32(<<((h[1] \div 256) * 256) + lo, h[2]>>)

RECURSIVE FnvFrom(_, _, _, _, _)
FnvFrom(h, s, k, bits, sx) ==
    IF k > Len(s) THEN h
    ELSE FnvFrom(IF bits = 64 THEN Step64(h, s[k], sx) ELSE Step32(h, s[k], sx), s, k + 1, bits, sx)

FnvSx(s, bits, sx) == FnvFrom(IF bits = 64 THEN Basis64 ELSE Basis32, s, 1, bits, sx)
Fnv1a(s, bits) == FnvSx(s, bits, FALSE)                 \* textbook FNV-1a
(* a 32-bit value is logged as four limbs too (upper two zero) *)
Fnv1aLogged(s, bits, sx) == IF bits = 64 THEN FnvSx(s, 64, sx) ELSE FnvSx(s, 32, sx) \o <<0, 0>>
=============================================================================
