SPECIFICATION Spec
CONSTANTS
  MaxLen8 = 5
  MaxLen16 = 4
  MaxLen32 = 3
  Slack = 0
INVARIANTS ReadsInRange Progress WrittenEqualsMeasured RefinesConv
CHECK_DEADLOCK FALSE
