----------------------------- MODULE StreamImpl -----------------------------
(***************************************************************************)
(* Statement-level model of ST::string_stream as written in                *)
(* st_stringstream.h: m_chars / m_alloc / m_size / m_stack[STACK], the     *)
(* doubling loop of expand_buffer, the copy of m_alloc old cells, the      *)
(* release of the old block, the move operations, and `new` as a step that *)
(* may throw.  Memory is explicit (cells of every block and of every       *)
(* in-object stack buffer), so "the content is the concatenation of what   *)
(* was appended" is an invariant about cells, not an assumption.           *)
(* TLC checks that this design refines the abstract stream (Stream.tla):   *)
(* ContentIsConcat, Exclusive, NoLeak, MovedFromIsEmptyValid, and that     *)
(* every operation terminates (no Hang).  AsIs = TRUE gives the move        *)
(* operations of the pinned snapshot (only m_alloc = 0 is reset) - the     *)
(* negative control that must fail.                                        *)
(***************************************************************************)
EXTENDS Naturals, Sequences, FiniteSets, TLC

CONSTANTS Slots, STACK, Tags, MaxLen, AsIs, WithFaults

VARIABLES obj,      \* slot -> Dead or [chars, alloc, size, stack]
          mem,      \* live heap blocks: id -> sequence of cells
          model,    \* ghost: slot -> the plain byte-string model of its content
          hung,     \* an operation did not terminate
          act
vars == <<obj, mem, model, hung, act>>

Dead == [st |-> "dead"]
Junk == "J"
JunkSeq(n) == [k \in 1..n |-> Junk]
Fill(n, t) == [k \in 1..n |-> t]
IsLive(s) == obj[s].st = "live"
IsHeap(o) == o.alloc > STACK
Fresh == CHOOSE b \in 1..(Cardinality(Slots) + 1) : b \notin DOMAIN mem     \* smallest-free naming is not needed: any free id
Storage(o) == IF o.chars = 0 THEN o.stack ELSE mem[o.chars]

Init == /\ obj = [s \in Slots |-> Dead] /\ mem = <<>> /\ model = [s \in Slots |-> <<>>]
        /\ hung = FALSE /\ act = "init"

NewObj == [st |-> "live", chars |-> 0, alloc |-> STACK, size |-> 0, stack |-> JunkSeq(STACK)]

Construct(s) == /\ ~IsLive(s) /\ obj' = [obj EXCEPT ![s] = NewObj] /\ model' = [model EXCEPT ![s] = <<>>]
                /\ UNCHANGED <<mem, hung>> /\ act' = "construct"

RECURSIVE Grow(_, _)
Grow(big, need) == IF need > big THEN Grow(big * 2, need) ELSE big

(* write data at position size of the (possibly new) storage *)
Put(cells, at, data) == [k \in 1..Len(cells) |-> IF k > at /\ k <= at + Len(data) THEN data[k - at] ELSE cells[k]]
Drop(m, b) == [k \in DOMAIN m \ {b} |-> m[k]]
With(m, b, cells) == [k \in DOMAIN m \cup {b} |-> IF k = b THEN cells ELSE m[k]]

AppendOp(s, data) ==
    /\ IsLive(s) /\ data # <<>>
    /\ LET o == obj[s]  need == o.size + Len(data) IN
       IF need > o.alloc
       THEN IF o.alloc = 0
            THEN hung' = TRUE /\ UNCHANGED <<obj, mem, model>>     \* big_size *= 2 from 0: never ends
            ELSE LET big    == Grow(o.alloc * 2, need)
                     old    == Storage(o)
                     bigger == [k \in 1..big |-> IF k <= o.alloc THEN old[k] ELSE Junk]
                     b      == Fresh
                     m1     == IF IsHeap(o) THEN Drop(mem, o.chars) ELSE mem
                 IN /\ mem' = With(m1, b, Put(bigger, o.size, data))
                    /\ obj' = [obj EXCEPT ![s] = [o EXCEPT !.chars = b, !.alloc = big, !.size = need]]
                    /\ model' = [model EXCEPT ![s] = @ \o data]
                    /\ UNCHANGED hung
       ELSE /\ IF o.chars = 0
               THEN obj' = [obj EXCEPT ![s] = [o EXCEPT !.stack = Put(o.stack, o.size, data), !.size = need]] /\ UNCHANGED mem
               ELSE obj' = [obj EXCEPT ![s] = [o EXCEPT !.size = need]] /\ mem' = [mem EXCEPT ![o.chars] = Put(@, o.size, data)]
            /\ model' = [model EXCEPT ![s] = @ \o data]
            /\ UNCHANGED hung
    /\ act' = "append"

(* `new` throws inside expand_buffer: nothing has been modified yet *)
AppendFault(s, data) ==
    /\ WithFaults /\ IsLive(s) /\ data # <<>> /\ obj[s].size + Len(data) > obj[s].alloc /\ obj[s].alloc > 0
    /\ UNCHANGED <<obj, mem, model, hung>> /\ act' = "fault append"

Truncate(s, n) ==
    /\ IsLive(s)
    /\ IF n < obj[s].size
       THEN obj' = [obj EXCEPT ![s].size = n] /\ model' = [model EXCEPT ![s] = SubSeq(@, 1, n)]
       ELSE UNCHANGED <<obj, model>>
    /\ UNCHANGED <<mem, hung>> /\ act' = "truncate"

Erase(s, n) ==
    /\ IsLive(s)
    /\ LET k == IF n < obj[s].size THEN obj[s].size - n ELSE 0 IN
       obj' = [obj EXCEPT ![s].size = k] /\ model' = [model EXCEPT ![s] = SubSeq(@, 1, k)]
    /\ UNCHANGED <<mem, hung>> /\ act' = "erase"

MovedFrom(o) == IF AsIs THEN [o EXCEPT !.alloc = 0]
                ELSE [o EXCEPT !.chars = 0, !.alloc = STACK, !.size = 0]

MoveConstruct(d, s) ==
    /\ d # s /\ ~IsLive(d) /\ IsLive(s)
    /\ LET m == obj[s] IN
       obj' = [obj EXCEPT ![d] = [st |-> "live", chars |-> IF IsHeap(m) THEN m.chars ELSE 0,
                                  alloc |-> m.alloc, size |-> m.size, stack |-> m.stack],
                          ![s] = MovedFrom(m)]
    /\ model' = [model EXCEPT ![d] = model[s], ![s] = <<>>]
    /\ UNCHANGED <<mem, hung>> /\ act' = "moveconstruct"

MoveAssign(d, s) ==
    /\ d # s /\ IsLive(d) /\ IsLive(s)
    /\ LET m == obj[s]  o == obj[d] IN
       /\ mem' = IF IsHeap(o) /\ o.chars \in DOMAIN mem THEN Drop(mem, o.chars) ELSE mem
       /\ obj' = [obj EXCEPT ![d] = [st |-> "live", chars |-> IF IsHeap(m) THEN m.chars ELSE 0,
                                     alloc |-> m.alloc, size |-> m.size, stack |-> m.stack],
                             ![s] = MovedFrom(m)]
    /\ model' = [model EXCEPT ![d] = model[s], ![s] = <<>>]
    /\ UNCHANGED hung /\ act' = "moveassign"

Destroy(s) ==
    /\ IsLive(s)
    /\ mem' = IF IsHeap(obj[s]) /\ obj[s].chars \in DOMAIN mem THEN Drop(mem, obj[s].chars) ELSE mem
    /\ obj' = [obj EXCEPT ![s] = Dead] /\ model' = [model EXCEPT ![s] = <<>>]
    /\ UNCHANGED hung /\ act' = "destroy"

(* appended data follows a positional pattern of period Cardinality(Tags) (as the      *)
(* executor's data does), so a copy that is shifted or short changes some cell         *)
TagSeq == CHOOSE q \in [1..Cardinality(Tags) -> Tags] : \A i, j \in DOMAIN q : i # j => q[i] # q[j]
Pat(at, n) == [k \in 1..n |-> TagSeq[((at + k - 1) % Cardinality(Tags)) + 1]]
AppLens == {1, STACK - 1, STACK, STACK + 1, 2 * STACK + 1}
CutLens == {0, 1, STACK, STACK + 1, MaxLen}
Next ==
    /\ ~hung
    /\ \/ \E s \in Slots : Construct(s) \/ Destroy(s)
       \/ \E s \in Slots, n \in AppLens : IsLive(s) /\ (AppendOp(s, Pat(obj[s].size, n)) \/ AppendFault(s, Pat(obj[s].size, n)))
       \/ \E s \in Slots, n \in CutLens : Truncate(s, n) \/ Erase(s, n)
       \/ \E d, s \in Slots : MoveConstruct(d, s) \/ MoveAssign(d, s)
Spec == Init /\ [][Next]_vars
Bound == \A s \in Slots : IsLive(s) => obj[s].size <= MaxLen
(* cells beyond size() cannot influence any later observation except by being copied *)
(* into cells that are again beyond size(): they are masked out of state identity     *)
Visible(o) == IF o.st = "dead" THEN o
              ELSE [chars |-> o.chars, alloc |-> o.alloc, size |-> o.size,
                    cells |-> IF o.chars = 0 \/ o.chars \in DOMAIN mem
                              THEN SubSeq(Storage(o), 1, IF o.size <= Len(Storage(o)) THEN o.size ELSE Len(Storage(o)))
                              ELSE <<>>]
View == <<[s \in Slots |-> Visible(obj[s])], DOMAIN mem, hung>>

---------------------------------------------------------------------------
Readable(o) == /\ o.chars = 0 \/ o.chars \in DOMAIN mem
               /\ o.size <= Len(Storage(o))
ContentIsConcat == \A s \in Slots : IsLive(s) =>
                      /\ Readable(obj[s])
                      /\ SubSeq(Storage(obj[s]), 1, obj[s].size) = model[s]
HeapOwners == {s \in Slots : IsLive(s) /\ obj[s].chars # 0}
Exclusive == \A s, t \in HeapOwners : s # t => obj[s].chars # obj[t].chars
NoLeak == DOMAIN mem = {obj[s].chars : s \in HeapOwners}
(* a stream that has been moved from is a valid empty stream: the          *)
(* constructor's state, and in general every live stream has a capacity    *)
(* that can grow                                                           *)
ValidObject == \A s \in Slots : IsLive(s) =>
                  /\ obj[s].alloc >= STACK
                  /\ (obj[s].chars = 0) <=> (obj[s].alloc = STACK)
                  /\ obj[s].size <= obj[s].alloc
MovedFromIsEmpty == [][\A d, s \in Slots : (act' \in {"moveconstruct", "moveassign"} /\ IsLive(s) /\ IsLive(s)'
                        /\ model'[s] = <<>> /\ model[s] # <<>>) => obj'[s].size = 0]_vars
Terminates == ~hung
=============================================================================
