------------------------------ MODULE KnownFmt ------------------------------
(***************************************************************************)
(* Known-finding classifiers for formatting (see Known.tla for the         *)
(* contract).                                                              *)
(***************************************************************************)
EXTENDS Format

WideSinkNames == {"writef_wostream", "writef_wostream_w", "writef_u16ostream", "writef_u32ostream"}

(* D14: the wide ostream sinks transcode every append() chunk separately    *)
(* and cast append_char() units, so their output differs from the          *)
(* transcoding of the ST::format bytes (or they throw) exactly when a      *)
(* chunk boundary falls inside a multi-byte character or a repeated pad    *)
(* unit is not ASCII.                                                      *)
KF_Fmt(ev, s, r) ==
    IF s.k \in WideSinkNames /\ r.res = "ok" /\ ChunkSplitsCharacter(r.chunks)
       \* ... and the sink did what the code as written does with these chunks: refuse a chunk that is not
       \* well-formed on its own, otherwise write (cast pad units) - any other outcome is a new violation
       /\ s.res = WideAsWritten(r.chunks, "utf32", 1).res
    THEN "D14-wide-sinks-transcode-per-chunk"
    ELSE "none"

KF_Float(ev, s) == "none"
KF_FmtAbnormal(ev) == "none"
=============================================================================
