------------------------------ MODULE KnownFmt ------------------------------
(***************************************************************************)
(* Known-finding classifiers for formatting (see Known.tla for the         *)
(* contract).                                                              *)
(***************************************************************************)
EXTENDS Format

WideSinkNames == {"writef_wostream", "writef_wostream_w", "writef_u16ostream", "writef_u32ostream"}

(* D14: the wide ostream sinks transcode every append() chunk separately    *)
(* and cast append_char() units, so their output differs from the          *)
(* transcoding of the ST::format bytes (or they throw) exactly when a      *)
(* chunk boundary falls inside a multi-byte character or a repeated pad    *)
(* unit is not ASCII.                                                      *)
KF_Fmt(ev, s, r) ==
    IF s.k \in WideSinkNames /\ r.res = "ok" /\ ChunkSplitsCharacter(r.chunks)
       /\ s.res \in {"ok", "unicode_error"}
    THEN "D14-wide-sinks-transcode-per-chunk"
    ELSE "none"

KF_Float(ev, s) == "none"
KF_FmtAbnormal(ev) == "none"
=============================================================================
