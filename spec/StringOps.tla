----------------------------- MODULE StringOps -----------------------------
(***************************************************************************)
(* Reference semantics of comparison, searching, slicing, splitting and    *)
(* replacing on byte strings (C06 - C09).  Strings are sequences of bytes  *)
(* 0..255 (embedded NULs are ordinary bytes).  Indices in results are      *)
(* 0-based like the library's; -1 means "not found".                       *)
(*                                                                         *)
(* 64-bit arguments (start, count, n, max, sizes) are records              *)
(*   [s |-> 1 | -1, m |-> <<l0, l1, l2, l3>>]  (sign, 16-bit limbs, little *)
(* endian) because TLC integers are 32 bit; they are only ever clamped     *)
(* against a string length or compared with each other.                    *)
(***************************************************************************)
EXTENDS Naturals, Integers, Sequences, FiniteSets

Min2(a, b) == IF a <= b THEN a ELSE b
Max2(a, b) == IF a >= b THEN a ELSE b
SetMin(S) == CHOOSE x \in S : \A y \in S : x <= y
SetMax(S) == CHOOSE x \in S : \A y \in S : x >= y
Sign(i) == IF i < 0 THEN -1 ELSE IF i > 0 THEN 1 ELSE 0

(* ---- wide numbers ------------------------------------------------------*)
IsSmall(x) == x.m[3] = 0 /\ x.m[4] = 0 /\ x.m[2] < 16384
SmallVal(x) == x.m[1] + 65536 * x.m[2]
(* Min(|x|, cap) for a small cap *)
MagMin(x, cap) == IF IsSmall(x) /\ SmallVal(x) <= cap THEN SmallVal(x) ELSE cap
IsNeg(x) == x.s < 0 /\ (x.m # <<0, 0, 0, 0>>)
(* three-way comparison of magnitudes *)
CmpMag(x, y) ==
    IF x.m[4] # y.m[4] THEN Sign(x.m[4] - y.m[4])
    ELSE IF x.m[3] # y.m[3] THEN Sign(x.m[3] - y.m[3])
    ELSE IF x.m[2] # y.m[2] THEN Sign(x.m[2] - y.m[2])
    ELSE Sign(x.m[1] - y.m[1])

(* ---- ASCII case --------------------------------------------------------*)
Fold(b)  == IF b >= 65 /\ b <= 90 THEN b + 32 ELSE b
Upper(b) == IF b >= 97 /\ b <= 122 THEN b - 32 ELSE b
FoldSeq(s)  == [i \in 1..Len(s) |-> Fold(s[i])]
UpperSeq(s) == [i \in 1..Len(s) |-> Upper(s[i])]
CaseOf(ci, s) == IF ci THEN FoldSeq(s) ELSE s

(* ---- C06: comparison ---------------------------------------------------*)
(* unsigned lexicographic order, a proper prefix sorts first; result -1/0/1 *)
RECURSIVE CmpFrom(_, _, _)
CmpFrom(a, b, i) ==
    IF i > Len(a) /\ i > Len(b) THEN 0
    ELSE IF i > Len(a) THEN -1
    ELSE IF i > Len(b) THEN 1
    ELSE IF a[i] < b[i] THEN -1
    ELSE IF a[i] > b[i] THEN 1
    ELSE CmpFrom(a, b, i + 1)
Compare(a, b) == CmpFrom(a, b, 1)

Take(s, k) == SubSeq(s, 1, Min2(k, Len(s)))
Drop(s, k) == SubSeq(s, Min2(k, Len(s)) + 1, Len(s))
CompareN(a, b, n) == Compare(Take(a, MagMin(n, Len(a))), Take(b, MagMin(n, Len(b))))

(* Comparison of two (pointer, size) operands of which only the first      *)
(* Min(lsize, rsize) units are given (pa, pb): units first, then sizes.    *)
CompareSized(pa, lsize, pb, rsize) ==
    LET c == Compare(pa, pb) IN IF c # 0 THEN c ELSE CmpMag(lsize, rsize)
NumMin(x, y) == IF CmpMag(x, y) <= 0 THEN x ELSE y

(* ---- C07: searching ----------------------------------------------------*)
OccursAt(h, n, i) == i + Len(n) <= Len(h) /\ \A j \in 1..Len(n) : h[i + j] = n[j]

FindFrom(h, n, start) ==          \* start: ordinary natural
    IF Len(n) = 0 \/ start >= Len(h) \/ Len(n) > Len(h) THEN -1
    ELSE LET S == {i \in start..(Len(h) - Len(n)) : OccursAt(h, n, i)}
         IN IF S = {} THEN -1 ELSE SetMin(S)
Find(h, n, start, ci) == FindFrom(CaseOf(ci, h), CaseOf(ci, n), MagMin(start, Len(h)))

FindLastLim(h, n, lim) ==         \* occurrences lying entirely before lim
    IF Len(n) = 0 \/ Len(h) = 0 \/ Len(n) > lim THEN -1
    ELSE LET S == {i \in 0..(lim - Len(n)) : OccursAt(h, n, i)}
         IN IF S = {} THEN -1 ELSE SetMax(S)
FindLast(h, n, max, ci) == FindLastLim(CaseOf(ci, h), CaseOf(ci, n), MagMin(max, Len(h)))

Contains(h, n, ci) == Find(h, n, [s |-> 1, m |-> <<0, 0, 0, 0>>], ci) >= 0
StartsWith(s, p, ci) == Len(p) <= Len(s) /\ CaseOf(ci, Take(s, Len(p))) = CaseOf(ci, p)
EndsWith(s, p, ci)   == Len(p) <= Len(s) /\ CaseOf(ci, Drop(s, Len(s) - Len(p))) = CaseOf(ci, p)

(* the loop of _ST_PRIVATE::find_cs as written (first-unit scan, compare,   *)
(* restart one further) - checked equivalent to FindFrom by MC_StringOps   *)
RECURSIVE FirstUnitFrom(_, _, _)
FirstUnitFrom(h, c, i) == IF i >= Len(h) THEN -1 ELSE IF h[i + 1] = c THEN i ELSE FirstUnitFrom(h, c, i + 1)
RECURSIVE FindScan(_, _, _)
FindScan(h, n, cp) ==             \* n non-empty
    LET p == FirstUnitFrom(h, n[1], cp) IN
    IF p < 0 \/ p + Len(n) > Len(h) THEN -1
    ELSE IF OccursAt(h, n, p) THEN p
    ELSE FindScan(h, n, p + 1)

(* ---- C08: slicing ------------------------------------------------------*)
Zero == [s |-> 1, m |-> <<0, 0, 0, 0>>]
Substr(s, start, count) ==
    LET n  == Len(s)
        st == IF IsNeg(start) THEN n - MagMin(start, n) ELSE MagMin(start, n + 1)
    IN IF st > n THEN <<>>
       ELSE SubSeq(s, st + 1, st + MagMin(count, n - st))
Left(s, k)  == Take(s, MagMin(k, Len(s)))
Right(s, k) == Drop(s, Len(s) - MagMin(k, Len(s)))

InSet(b, cs) == \E j \in 1..Len(cs) : cs[j] = b
RECURSIVE LeadRun(_, _, _)
LeadRun(s, cs, i) == IF i > Len(s) \/ ~InSet(s[i], cs) THEN i - 1 ELSE LeadRun(s, cs, i + 1)
RECURSIVE TrailRun(_, _, _)
TrailRun(s, cs, i) == IF i < 1 \/ ~InSet(s[i], cs) THEN Len(s) - i ELSE TrailRun(s, cs, i - 1)
TrimLeft(s, cs)  == Drop(s, LeadRun(s, cs, 1))
TrimRight(s, cs) == Take(s, Len(s) - TrailRun(s, cs, Len(s)))
Trim(s, cs)      == TrimRight(TrimLeft(s, cs), cs)

Huge == [s |-> 1, m |-> <<65535, 65535, 65535, 65535>>]
BeforeFirst(s, sep, ci) == LET i == Find(s, sep, Zero, ci) IN IF i >= 0 THEN Take(s, i) ELSE s
AfterFirst(s, sep, ci)  == LET i == Find(s, sep, Zero, ci) IN IF i >= 0 THEN Drop(s, i + Len(sep)) ELSE <<>>
BeforeLast(s, sep, ci)  == LET i == FindLast(s, sep, Huge, ci) IN IF i >= 0 THEN Take(s, i) ELSE <<>>
AfterLast(s, sep, ci)   == LET i == FindLast(s, sep, Huge, ci) IN IF i >= 0 THEN Drop(s, i + Len(sep)) ELSE s

(* ---- C09: split / tokenize / replace / join ----------------------------*)
RECURSIVE SplitK(_, _, _, _)
SplitK(s, sep, k, ci) ==          \* at most k cuts (k an ordinary natural)
    IF k = 0 \/ Len(sep) = 0 THEN <<s>>
    ELSE LET i == Find(s, sep, Zero, ci) IN
         IF i < 0 THEN <<s>>
         ELSE <<Take(s, i)>> \o SplitK(Drop(s, i + Len(sep)), sep, k - 1, ci)
Split(s, sep, max, ci) == SplitK(s, sep, MagMin(max, Len(s) + 1), ci)

RECURSIVE JoinFrom(_, _, _)
JoinFrom(ps, sep, k) == IF k > Len(ps) THEN <<>>
                        ELSE IF k = Len(ps) THEN ps[k] ELSE ps[k] \o sep \o JoinFrom(ps, sep, k + 1)
Join(ps, sep) == JoinFrom(ps, sep, 1)

RECURSIVE TokFrom(_, _, _)
TokFrom(s, ds, i) ==              \* i: 1-based position
    IF i > Len(s) THEN <<>>
    ELSE IF InSet(s[i], ds) THEN TokFrom(s, ds, i + 1)
    ELSE LET e == CHOOSE e \in i..Len(s) :
                     /\ \A j \in i..e : ~InSet(s[j], ds)
                     /\ (e = Len(s) \/ InSet(s[e + 1], ds))
         IN <<SubSeq(s, i, e)>> \o TokFrom(s, ds, e + 1)
Tokenize(s, ds) == TokFrom(s, ds, 1)

RECURSIVE Replace(_, _, _, _)
Replace(s, from, to, ci) ==
    IF Len(s) = 0 \/ Len(from) = 0 THEN s
    ELSE LET i == Find(s, from, Zero, ci) IN
         IF i < 0 THEN s
         ELSE Take(s, i) \o to \o Replace(Drop(s, i + Len(from)), from, to, ci)

RECURSIVE CountOcc(_, _, _)
CountOcc(s, from, ci) ==          \* non-overlapping, left to right
    IF Len(s) = 0 \/ Len(from) = 0 THEN 0
    ELSE LET i == Find(s, from, Zero, ci) IN
         IF i < 0 THEN 0 ELSE 1 + CountOcc(Drop(s, i + Len(from)), from, ci)

(* the two separately written scans of ST::string::replace: the first sizes *)
(* the result, the second copies - MC_StringOps checks they agree          *)
ReplaceSized(s, from, to, ci) == Len(s) + CountOcc(s, from, ci) * Len(to) - CountOcc(s, from, ci) * Len(from)
=============================================================================
