SPECIFICATION Spec
CONSTANTS
  Tokens = {123, 125, 95, 46, 38, 48, 53, 120, 99, 32, 45, 97, 195}
  MaxLen = 5
INVARIANTS ReadsWithinTerminator OutcomeTotal AssertOnlyForPaddedChar NoBraceIsLiteral NoArgs SinksDefined WideSinkDiffersOnlyOnSplit
CHECK_DEADLOCK FALSE
