----------------------------- MODULE TraceConv -----------------------------
(***************************************************************************)
(* Trace validation of recorded conversion calls (properties C01 C02 C03). *)
(* One line of the trace = one input, with the outcomes of every public    *)
(* route that converts it, grouped by identical outcome.  TLC decides for  *)
(* every group whether the outcome is one the Unicode module allows.       *)
(***************************************************************************)
EXTENDS Unicode, Known, TraceLib, Json, IOUtils, TLC

TraceLog == ndJsonDeserialize(IOEnv.TRACE)
OutFile  == IOEnv.OUT

VARIABLES l,        \* next line of the trace
          plat,     \* the Platform record bound from the first event
          book,     \* rejections (TraceLib)
          ngroups,  \* outcome groups decided
          ndec,     \* (group, mode) decisions
          nmal,     \* inputs that are not well-formed (have a Bad item)
          done
vars == <<l, plat, book, ngroups, ndec, nmal, done>>

NoPlat == [wchar_bits |-> 0, dflt |-> "none"]

Init == /\ l = 1 /\ plat = NoPlat /\ book = Book0 /\ ngroups = 0 /\ ndec = 0 /\ nmal = 0 /\ done = FALSE

Ev == TraceLog[l]

Resolve(e) == IF e = "wchar" THEN (IF plat.wchar_bits = 32 THEN "utf32" ELSE "utf16") ELSE e
ModeOf(m)  == IF m = "dflt" THEN plat.dflt ELSE m

(* One recorded outcome group of one input *)
GroupOk(src, u, its, g) ==
    LET rs   == Resolve(src)
        rd   == Resolve(g.d)
        refA == OutFrom(rs, rd, u, its, 1, TRUE)
    IN
    /\ \A j \in 1..Len(g.ms) :
          ConvAllowedI(rs, rd, ModeOf(g.ms[j]), g.s = 1, u, its, refA, g.res, g.out)
    /\ g.res = "ok" => /\ g.z = 0          \* NUL after the last unit
                       /\ g.det = 1        \* same units whatever the fresh memory held
                       /\ g.n = Len(g.out) \* size() = number of units held

(* The scalar sequence an input claims to encode (C01 sweeps) *)
ClaimOk(ev) ==
    "sc" \in DOMAIN ev =>
        /\ \A k \in 1..Len(ev.sc) : IsScalar(ev.sc[k])
        /\ ev["in"] = EncSeq(Resolve(ev.src), ev.sc)

BadGroups(ev) == LET its == Items(Resolve(ev.src), ev["in"])
                 IN  {k \in 1..Len(ev.g) : ~GroupOk(ev.src, ev["in"], its, ev.g[k])}

(* Which property statements a rejected group contradicts.                 *)
(*  C01: the input is (claimed and checked to be) well-formed text.        *)
(*  C03: totality / structure: foreign exception, missing NUL, size() not  *)
(*       the number of units, memory-dependent units, wrong result size.   *)
(*  C02: the accept/reject decision or the repaired content is wrong -     *)
(*       except where the target cannot represent a decoded value (the     *)
(*       statement leaves that to C03's totality).                         *)
PropsOf(ev, g) ==
    LET rs   == Resolve(ev.src)
        rd   == Resolve(g.d)
        u    == ev["in"]
        its  == Items(rs, u)
        refA == OutFrom(rs, rd, u, its, 1, TRUE)
        convOk == \A j \in 1..Len(g.ms) :
                     ConvAllowedI(rs, rd, ModeOf(g.ms[j]), g.s = 1, u, its, refA, g.res, g.out)
        struct == \/ g.res \notin {"ok", "unicode_error"}
                  \/ g.res = "ok" /\ (g.z # 0 \/ g.det # 1 \/ g.n # Len(g.out)
                                        \/ Len(g.out) # Len(refA))
    IN  (IF "sc" \in DOMAIN ev THEN <<"C01">> ELSE <<>>)
     \o (IF ~convOk /\ ~Unrep(rd, its) THEN <<"C02">> ELSE <<>>)
     \o (IF struct THEN <<"C03">> ELSE <<>>)

RejRec(ev, k) ==
    LET g == ev.g[k] IN
    [line |-> l, i |-> ev.i, k |-> k, what |-> "group", cls |-> ev.src \o ">" \o g.d \o "/" \o g.res,
     props |-> PropsOf(ev, g),
     kf |-> KF_Conv(Resolve(ev.src), Resolve(g.d), ev.src, g.d, g.ms,
                    g.s = 1, ev["in"], g.res, g.out, plat)]

RECURSIVE SumModes(_, _)
SumModes(gs, k) == IF k > Len(gs) THEN 0 ELSE Len(gs[k].ms) + SumModes(gs, k + 1)

TPlatform ==
    /\ Ev.e = "Platform"
    /\ plat' = [wchar_bits |-> Ev.wchar_bits, dflt |-> Ev.dflt]
    /\ UNCHANGED <<book, ngroups, ndec, nmal>>

TConv ==
    /\ Ev.e = "Conv"
    /\ plat # NoPlat
    /\ LET bad  == BadGroups(Ev)
           recs == [j \in 1..Cardinality(bad) |-> RejRec(Ev, SetToSeq(bad)[j])]
           cl   == IF ClaimOk(Ev) THEN <<>>
                   ELSE << [line |-> l, i |-> Ev.i, k |-> 0, what |-> "claim", props |-> <<"HARNESS">>, kf |-> "none"] >>
       IN book' = BookAdd(book, recs \o cl)
    /\ ngroups' = ngroups + Len(Ev.g)
    /\ ndec' = ndec + SumModes(Ev.g, 1)
    /\ nmal' = nmal + (IF AnyBad(Items(Resolve(Ev.src), Ev["in"])) THEN 1 ELSE 0)
    /\ UNCHANGED plat

(* an input close to the documented limit of 256 Mi units (all 'a'): converted, one unit per unit *)
THuge ==
    /\ Ev.e = "Huge"
    /\ IF Ev.res = "ok" /\ Ev.size = Ev.n /\ Ev.first = 97 /\ Ev.last = 97 /\ Ev.z = 0 THEN UNCHANGED book
       ELSE book' = BookAdd(book, << [line |-> l, i |-> Ev.i, k |-> 0, what |-> "huge input", props |-> <<"C03">>, kf |-> "none"] >>)
    /\ ndec' = ndec + 1
    /\ UNCHANGED <<plat, ngroups, nmal>>

AbnormalProps(ev) ==
    IF ~("in" \in DOMAIN ev.during) THEN <<"C03">>
    ELSE LET d == ev.during
             its == Items(Resolve(d.src), d["in"])
         IN  (IF "sc" \in DOMAIN d THEN <<"C01">> ELSE <<>>)
          \o (IF ~Unrep("utf16", its) THEN <<"C02">> ELSE <<>>)
          \o <<"C03">>

(* An abnormal termination of the executor is not an action of the spec:   *)
(* it is always rejected, attributed to the call that was running.         *)
TAbnormal ==
    /\ Ev.e = "Abnormal"
    /\ book' = BookAdd(book, << [line |-> l, i |-> Ev.i, k |-> 0, what |-> "abnormal",
                                  props |-> AbnormalProps(Ev), kf |-> KF_ConvAbnormal(Ev)] >>)
    /\ UNCHANGED <<plat, ngroups, ndec, nmal>>

TStep ==
    /\ ~done /\ l <= Len(TraceLog)
    /\ (TPlatform \/ TConv \/ THuge \/ TAbnormal)
    /\ l' = l + 1 /\ done' = FALSE

TFinish ==
    /\ ~done /\ l = Len(TraceLog) + 1
    /\ ndJsonSerialize(OutFile, << [lines |-> Len(TraceLog), nrej |-> book.nrej, kfn |-> book.kfn,
                                    ngroups |-> ngroups, n_decided |-> ndec,
                                    n_malformed_inputs |-> nmal, rej |-> book.rej] >>)
    /\ done' = TRUE
    /\ UNCHANGED <<l, plat, book, ngroups, ndec, nmal>>

Next == TStep \/ TFinish
Spec == Init /\ [][Next]_vars

(* every line consumed and the verdict written: diameter = lines + 2 *)
Accepted == TLCGet("stats").diameter = Len(TraceLog) + 2
=============================================================================
