----------------------------- MODULE StringPool -----------------------------
(***************************************************************************)
(* A pool of ST::string objects (C04, C18, string part of C19).            *)
(*                                                                         *)
(* Abstract state of one slot: dead, or live with                          *)
(*    val  - the bytes the string holds,                                   *)
(*    stor - where its data lives: Self = 0 (inside the object) or the     *)
(*           positive id of a heap block,                                  *)
(*    addr - an opaque token for the data pointer (c_str()), so that       *)
(*           "reads leave the data pointer unchanged" is checkable.        *)
(* C04 in terms of this state:                                             *)
(*  - a const operation leaves EVERY existing object's (val, stor, addr)   *)
(*    unchanged, and each object it returns has storage of its own         *)
(*    (inside itself, or a heap block no other object owns);               *)
(*  - a mutator (assignment, set, +=, clear, move) changes only the        *)
(*    objects it names;                                                    *)
(*  - therefore modifying or destroying a source or a result never shows   *)
(*    in the other: they are separate slots and every step checks that     *)
(*    unnamed slots are untouched, over whole histories.                   *)
(* C18/C19: a step that throws leaves the pool as it was (the target of a  *)
(* failed allocation may alternatively be empty).                          *)
(***************************************************************************)
EXTENDS Naturals, Sequences, FiniteSets

Self == 0
Dead == [st |-> "dead"]
Obj(v, stor, addr) == [st |-> "live", val |-> v, stor |-> stor, addr |-> addr]
IsLive(p, s) == p[s].st = "live"
LiveSlots(p) == {s \in DOMAIN p : IsLive(p, s)}
HeapSlots(p) == {s \in LiveSlots(p) : p[s].stor # Self}
Owned(p)     == {p[s].stor : s \in HeapSlots(p)}
Exclusive(p) == \A s, t \in HeapSlots(p) : s # t => p[s].stor # p[t].stor

(* every slot outside `touched` is bit-for-bit what it was *)
OnlyTouched(pre, post, touched) == \A s \in DOMAIN pre : s \notin touched => post[s] = pre[s]

(* slot d now holds v in storage that no pre-existing object owns *)
HoldsFresh(pre, post, d, v) ==
    /\ IsLive(post, d) /\ post[d].val = v
    /\ post[d].stor = Self \/ post[d].stor \notin Owned([pre EXCEPT ![d] = Dead])

(* ---- const operation on any sources; optionally its first result is    *)
(* kept in the (dead) slot k                                               *)
ConstOpOk(pre, post, k, v) ==
    IF k = 0 THEN post = pre
    ELSE /\ ~IsLive(pre, k) /\ OnlyTouched(pre, post, {k}) /\ HoldsFresh(pre, post, k, v)

(* ---- mutators ---------------------------------------------------------*)
(* construction / assignment / set / += / clear of d with resulting value v *)
WriteOk(pre, post, d, v) == OnlyTouched(pre, post, {d}) /\ HoldsFresh(pre, post, d, v)
(* move construction / move assignment d <- s (d # s): d holds the value,   *)
(* s is left valid with an unspecified value                               *)
MoveOk(pre, post, d, s) ==
    /\ OnlyTouched(pre, post, {d, s}) /\ IsLive(post, d) /\ IsLive(post, s)
    /\ post[d].val = pre[s].val
DestroyOk(pre, post, d) == IsLive(pre, d) /\ post = [pre EXCEPT ![d] = Dead]

(* ---- failures ---------------------------------------------------------*)
(* unicode_error / codec_error / bad_format / out_of_range: nothing moved  *)
ThrowOk(pre, post) == post = pre
(* bad_alloc: the target keeps its value or is empty; nothing else moved   *)
FaultOk(pre, post, d) ==
    /\ OnlyTouched(pre, post, {d})
    /\ IF d = 0 THEN post = pre
       ELSE IF IsLive(pre, d) THEN IsLive(post, d) /\ (post[d] = pre[d] \/ post[d].val = <<>>)
       ELSE post[d] = Dead
=============================================================================
