------------------------------- MODULE Stream -------------------------------
(***************************************************************************)
(* A pool of ST::string_stream objects (C16, stream part of C18/C19).      *)
(*                                                                         *)
(* Abstract state of one slot: dead, or live with                          *)
(*    val  - the bytes raw_buffer()[0, size()) as a chunk list (below),    *)
(*    stor - where raw_buffer() points: Self = 0 (inside the object) or    *)
(*           the positive id of a heap block.                              *)
(* The statement of C16 fixes the CONTENT ("what a plain byte-string model *)
(* yields") and ownership ("no storage is leaked or freed twice", a        *)
(* moved-from stream is a valid EMPTY stream); it fixes no capacity policy,*)
(* so neither does this module: a step may keep or replace the storage,    *)
(* as long as every live stream's storage is its own (Exclusive) and the   *)
(* set of live heap blocks is exactly the set of owned ones.               *)
(*                                                                         *)
(* Content representation.  Streams reach several KiB, so bytes are kept   *)
(* as chunks <<b, n>> = the n bytes b, Succ(b), Succ(Succ(b)), ...  where   *)
(* Succ walks the two 23-byte test patterns 'a'..'w' and 'A'..'W'          *)
(* cyclically and fixes every other byte (a plain run).  The form is        *)
(* canonical (no chunk continues its predecessor), so equality of chunk    *)
(* lists is equality of byte strings, and concatenation only has to look   *)
(* at the seam.                                                            *)
(***************************************************************************)
EXTENDS Naturals, Sequences, FiniteSets, TLC

Period == 23
InPat(b, base) == b >= base /\ b < base + Period
PatBase(b) == IF InPat(b, 97) THEN 97 ELSE IF InPat(b, 65) THEN 65 ELSE 0
Adv(b, n) == LET base == PatBase(b) IN
             IF base = 0 THEN b ELSE base + ((b - base + n) % Period)
Succ(b) == Adv(b, 1)

Last(q) == q[Len(q)]
Front(q) == SubSeq(q, 1, Len(q) - 1)

(* concatenation of canonical chunk lists *)
Cat(x, y) ==
    IF x = <<>> THEN y ELSE IF y = <<>> THEN x
    ELSE IF Adv(Last(x)[1], Last(x)[2]) = Head(y)[1]
         THEN Front(x) \o << <<Last(x)[1], Last(x)[2] + Head(y)[2]>> >> \o Tail(y)
         ELSE x \o y

RECURSIVE CLen(_)
CLen(x) == IF x = <<>> THEN 0 ELSE Head(x)[2] + CLen(Tail(x))

(* the first n bytes (n <= CLen(x)) *)
RECURSIVE CPrefix(_, _)
CPrefix(x, n) ==
    IF n = 0 \/ x = <<>> THEN <<>>
    ELSE IF Head(x)[2] <= n THEN <<Head(x)>> \o CPrefix(Tail(x), n - Head(x)[2])
    ELSE << <<Head(x)[1], n>> >>

RECURSIVE FromBytesAcc(_, _, _)
FromBytesAcc(q, i, acc) == IF i > Len(q) THEN acc ELSE FromBytesAcc(q, i + 1, Cat(acc, << <<q[i], 1>> >>))
FromBytes(q) == FromBytesAcc(q, 1, <<>>)

ChunkExpand(c) == [k \in 1..c[2] |-> Adv(c[1], k - 1)]
RECURSIVE ToBytes(_)
ToBytes(x) == IF x = <<>> THEN <<>> ELSE ChunkExpand(Head(x)) \o ToBytes(Tail(x))

Canonical(x) == /\ \A k \in 1..Len(x) : x[k][2] >= 1 /\ x[k][1] \in 0..255
                /\ \A k \in 1..(Len(x) - 1) : Adv(x[k][1], x[k][2]) # x[k + 1][1]
AllAscii(x) == \A k \in 1..Len(x) : x[k][1] < 128
Run(c, n) == IF n = 0 THEN <<>> ELSE << <<c, n>> >>              \* n bytes c, Succ(c), ...
(* n copies of the byte c (append_char): one chunk, unless c is a pattern  *)
(* byte, whose successor differs from it                                   *)
FillOf(c, n) == IF n = 0 THEN <<>> ELSE IF PatBase(c) = 0 THEN << <<c, n>> >> ELSE [k \in 1..n |-> <<c, 1>>]
Min(a, b) == IF a < b THEN a ELSE b

---------------------------------------------------------------------------
Self == 0
Dead == [st |-> "dead"]
Live(v, stor) == [st |-> "live", val |-> v, stor |-> stor]
Empty == Live(<<>>, Self)
IsLive(p, s) == p[s].st = "live"
LiveSlots(p) == {s \in DOMAIN p : IsLive(p, s)}
HeapSlots(p) == {s \in LiveSlots(p) : p[s].stor # Self}
Owned(p)     == {p[s].stor : s \in HeapSlots(p)}
Exclusive(p) == \A s, t \in HeapSlots(p) : s # t => p[s].stor # p[t].stor
Upd(p, s, r)        == [p EXCEPT ![s] = r]
Upd2(p, s, r, t, q) == [p EXCEPT ![s] = r, ![t] = q]

(* ---- operations: guard and result; st is the storage observed after ---- *)
ConstructG(p, s)  == ~IsLive(p, s)
ConstructR(p, s)  == Upd(p, s, Empty)

(* every way of adding bytes (append, append_char, each operator<<)        *)
AppendG(p, s)            == IsLive(p, s)
AppendR(p, s, data, st)  == Upd(p, s, Live(Cat(p[s].val, data), st))

TruncateG(p, s)          == IsLive(p, s)
TruncateR(p, s, n, st)   == Upd(p, s, Live(CPrefix(p[s].val, Min(n, CLen(p[s].val))), st))
EraseR(p, s, n, st)      == LET len == CLen(p[s].val) IN
                            Upd(p, s, Live(CPrefix(p[s].val, len - Min(n, len)), st))

(* string_stream(string_stream &&) / operator=(string_stream &&), d # s:   *)
(* d holds the content, s is a valid empty stream                          *)
MoveConstructG(p, d, s)  == d # s /\ ~IsLive(p, d) /\ IsLive(p, s)
MoveAssignG(p, d, s)     == d # s /\ IsLive(p, d) /\ IsLive(p, s)
MoveR(p, d, s, std, sts) == Upd2(p, d, Live(p[s].val, std), s, Live(<<>>, sts))

DestroyG(p, s) == IsLive(p, s)
DestroyR(p, s) == Upd(p, s, Dead)

(* a step that throws (bad_alloc from an injected allocation failure, or   *)
(* unicode_error from inserting malformed wide text) changes nothing       *)
ThrowR(p) == p

OnlyTouched(pre, post, touched) == \A s \in DOMAIN pre : s \notin touched => post[s] = pre[s]
=============================================================================
