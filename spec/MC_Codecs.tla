------------------------------ MODULE MC_Codecs ------------------------------
(***************************************************************************)
(* Model-level checks of the codecs (C14, C15): round trips on all byte    *)
(* arrays over a boundary alphabet, and - for every text over a small      *)
(* alphabet of valid, padding and invalid characters - that the decoder    *)
(* loop as written accepts exactly the valid encodings, returns the        *)
(* implied size and never writes at an index beyond output_size.           *)
(***************************************************************************)
EXTENDS Codecs, TLC

CONSTANTS ByteAlpha, MaxBytes, TextAlpha, MaxText

VARIABLES mode, x
vars == <<mode, x>>
Init == mode \in {"bytes", "text"} /\ x = <<>>
Next == /\ \/ mode = "bytes" /\ Len(x) < MaxBytes /\ \E b \in ByteAlpha : x' = Append(x, b)
           \/ mode = "text" /\ Len(x) < MaxText /\ \E c \in TextAlpha : x' = Append(x, c)
        /\ UNCHANGED mode
Spec == Init /\ [][Next]_vars

Upper(s) == [i \in 1..Len(s) |-> IF s[i] >= 97 /\ s[i] <= 102 THEN s[i] - 32 ELSE s[i]]

RoundTrip == mode = "bytes" =>
    /\ Len(HexEnc(x)) = 2 * Len(x) /\ Len(B64Enc(x)) = 4 * ((Len(x) + 2) \div 3)
    /\ HexValid(HexEnc(x)) /\ HexDec(HexEnc(x)) = x
    /\ HexValid(Upper(HexEnc(x))) /\ HexDec(Upper(HexEnc(x))) = x
    /\ B64Valid(B64Enc(x)) /\ B64Dec(B64Enc(x)) = x /\ B64DecSize(B64Enc(x)) = Len(x)
    /\ \A i \in 1..Len(HexEnc(x)) : HexEnc(x)[i] \in (48..57) \cup (97..102)

ImplAcceptsExactlyValid == mode = "text" => \A osz \in 0..(MaxText) :
    LET r == B64DecImpl(x, osz)  d == B64DecSize(x) IN
    /\ r.ret = DecodeBufRet("b64", x, FALSE, osz)
    /\ r.nwritten <= osz                                  \* never writes beyond output_size
    /\ (r.ret >= 0 => r.nwritten = r.ret /\ r.ret = d /\ r.ret = Len(B64Dec(x)))
ValidImpliesSize == mode = "text" => (B64Valid(x) => B64DecSize(x) = Len(B64Dec(x)) /\ B64DecSize(x) >= 0)
=============================================================================
