SPECIFICATION Spec
CONSTANTS
  Slots = {1, 2}
  L = 3
  Tags = {"A", "B"}
  EmitEdges = FALSE
  WithFaults = TRUE
  TrackPeak = TRUE
VIEW View
INVARIANTS TypeOK Representation NoLeakByConstruction PeakIsHistory
PROPERTIES OnlyNamedObjectsChange FaultsAreClean
ACTION_CONSTRAINT Emit
CHECK_DEADLOCK FALSE
