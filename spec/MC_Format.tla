------------------------------ MODULE MC_Format ------------------------------
(***************************************************************************)
(* Model-level checks of the format parser and renderer (C10, C11, C17).   *)
(* The format string grows one token at a time over the parser's token     *)
(* classes (every nesting of braces, pad, precision, argument reference,   *)
(* digits, sign, white space, unknown characters, a non-ASCII byte; every   *)
(* prefix of every string is a state too, i.e. "cut at every position").   *)
(***************************************************************************)
EXTENDS Format, TLC

CONSTANTS Tokens, MaxLen

VARIABLES f
Init == f = <<>>
Next == Len(f) < MaxLen /\ \E t \in Tokens : f' = Append(f, t)
Spec == Init /\ [][Next]_f

N(k) == [s |-> IF k < 0 THEN -1 ELSE 1, m |-> <<IF k < 0 THEN 0 - k ELSE k, 0, 0, 0>>]
ArgLists == { <<>>,
              << [t |-> "i32", v |-> N(42)] >>,
              << [t |-> "str", b |-> <<97, 98>>] >>,
              << [t |-> "i32", v |-> N(-7)], [t |-> "str", b |-> <<195, 169>>] >>,
              << [t |-> "c32", v |-> N(120)], [t |-> "bool", v |-> 1], [t |-> "u8", v |-> N(0)] >> }

Outcomes == {"ok", "bad_format", "out_of_range", "assert"}

(* never reads past the terminating NUL *)
ReadsWithinTerminator == \A a \in ArgLists : Format(f, a).maxread <= Len(f) + 1
(* every call ends in a documented outcome (no 10..19-digit numbers in this alphabet) *)
OutcomeTotal == \A a \in ArgLists : Format(f, a).res \in Outcomes
(* the contract assertion is reachable only through the character class with padding *)
AssertOnlyForPaddedChar == \A a \in ArgLists :
    Format(f, a).res = "assert" => (\E i \in 1..Len(f) : f[i] = 99) /\ (\E i \in 1..Len(f) : f[i] \in {95, 48, 53})
(* without any '{' the output is the text with "}}" reduced *)
NoBraceIsLiteral == (\A i \in 1..Len(f) : f[i] # 123 /\ f[i] # 125) =>
                       \A a \in ArgLists : Format(f, a).res = "ok" /\ Bytes(Format(f, a).chunks) = f
(* no argument list: a field is always out_of_range, never parsed *)
NoArgs == Format(f, <<>>).res \in {"ok", "out_of_range"}
(* narrow sinks and the string sink agree by construction; Latin-1 sink is total *)
SinksDefined == \A a \in ArgLists :
    LET r == Format(f, a) IN r.res = "ok" =>
        /\ StringSink(r.chunks, "substitute").res = "ok"
        /\ (StringSink(r.chunks, "check").res = "ok" => StringSink(r.chunks, "check").out = ByteSink(r.chunks))
        /\ Len(Latin1Sink(r.chunks)) >= Len(ByteSink(r.chunks))
(* the per-chunk wide sink differs from the required transcoding only when a chunk splits a character *)
WideSinkDiffersOnlyOnSplit == \A a \in ArgLists :
    LET r == Format(f, a) IN
    (r.res = "ok" /\ ~ChunkSplitsCharacter(r.chunks) /\ ~(\E k \in 1..Len(r.chunks) : r.chunks[k].k = "c"))
        => WideAsWritten(r.chunks, "utf32", 1) = WideSink(r.chunks, "utf32")
=============================================================================
