SPECIFICATION Spec
CONSTANTS
  Slots = {1, 2, 3}
  L = 2
  Lens = {0, 1, 2, 3}
  Units = {1}
  NB = 4
  Variant = "fixed"
  WithFaults = TRUE
VIEW View
INVARIANTS AllReadable AllTerminated NoBadFree LastWrite AbsValid NoLeak
CHECK_DEADLOCK FALSE
