---- MODULE Threads_TTrace_1790732606 ----
EXTENDS Threads, Sequences, TLCExt, Toolbox, Naturals, TLC

_expression ==
    LET Threads_TEExpression == INSTANCE Threads_TEExpression
    IN Threads_TEExpression!expression
----

_trace ==
    LET Threads_TETrace == INSTANCE Threads_TETrace
    IN Threads_TETrace!trace
----

_inv ==
    ~(
        TLCGet("level") = Len(_TETrace)
        /\
        pc = (<<<<1, 3>>, <<1, 3>>, <<1, 1>>>>)
        /\
        mem = ((<<"input", 0>> :> "in" @@ <<"scratch", 0>> :> <<"f", 1, 1>> @@ <<"result", 1>> :> "none" @@ <<"result", 2>> :> "none" @@ <<"result", 3>> :> "none"))
        /\
        lastAcc = ((<<"input", 0>> :> {<<1, "r">>, <<2, "r">>} @@ <<"scratch", 0>> :> {<<1, "w">>, <<2, "w">>} @@ <<"result", 1>> :> {} @@ <<"result", 2>> :> {} @@ <<"result", 3>> :> {}))
        /\
        results = (<<<<>>, <<>>, <<>>>>)
        /\
        conflict = (TRUE)
    )
----

_init ==
    /\ results = _TETrace[1].results
    /\ lastAcc = _TETrace[1].lastAcc
    /\ mem = _TETrace[1].mem
    /\ pc = _TETrace[1].pc
    /\ conflict = _TETrace[1].conflict
----

_next ==
    /\ \E i,j \in DOMAIN _TETrace:
        /\ \/ /\ j = i + 1
              /\ i = TLCGet("level")
        /\ results  = _TETrace[i].results
        /\ results' = _TETrace[j].results
        /\ lastAcc  = _TETrace[i].lastAcc
        /\ lastAcc' = _TETrace[j].lastAcc
        /\ mem  = _TETrace[i].mem
        /\ mem' = _TETrace[j].mem
        /\ pc  = _TETrace[i].pc
        /\ pc' = _TETrace[j].pc
        /\ conflict  = _TETrace[i].conflict
        /\ conflict' = _TETrace[j].conflict

\* Uncomment the ASSUME below to write the states of the error trace
\* to the given file in Json format. Note that you can pass any tuple
\* to `JsonSerialize`. For example, a sub-sequence of _TETrace.
    \* ASSUME
    \*     LET J == INSTANCE Json
    \*         IN J!JsonSerialize("Threads_TTrace_1790732606.json", _TETrace)

=============================================================================

 Note that you can extract this module `Threads_TEExpression`
  to a dedicated file to reuse `expression` (the module in the 
  dedicated `Threads_TEExpression.tla` file takes precedence 
  over the module `Threads_TEExpression` below).

---- MODULE Threads_TEExpression ----
EXTENDS Threads, Sequences, TLCExt, Toolbox, Naturals, TLC

expression == 
    [
        \* To hide variables of the `Threads` spec from the error trace,
        \* remove the variables below.  The trace will be written in the order
        \* of the fields of this record.
        results |-> results
        ,lastAcc |-> lastAcc
        ,mem |-> mem
        ,pc |-> pc
        ,conflict |-> conflict
        
        \* Put additional constant-, state-, and action-level expressions here:
        \* ,_stateNumber |-> _TEPosition
        \* ,_resultsUnchanged |-> results = results'
        
        \* Format the `results` variable as Json value.
        \* ,_resultsJson |->
        \*     LET J == INSTANCE Json
        \*     IN J!ToJson(results)
        
        \* Lastly, you may build expressions over arbitrary sets of states by
        \* leveraging the _TETrace operator.  For example, this is how to
        \* count the number of times a spec variable changed up to the current
        \* state in the trace.
        \* ,_resultsModCount |->
        \*     LET F[s \in DOMAIN _TETrace] ==
        \*         IF s = 1 THEN 0
        \*         ELSE IF _TETrace[s].results # _TETrace[s-1].results
        \*             THEN 1 + F[s-1] ELSE F[s-1]
        \*     IN F[_TEPosition - 1]
    ]

=============================================================================



Parsing and semantic processing can take forever if the trace below is long.
 In this case, it is advised to uncomment the module below to deserialize the
 trace from a generated binary file.

\*
\*---- MODULE Threads_TETrace ----
\*EXTENDS Threads, IOUtils, TLC
\*
\*trace == IODeserialize("Threads_TTrace_1790732606.bin", TRUE)
\*
\*=============================================================================
\*

---- MODULE Threads_TETrace ----
EXTENDS Threads, TLC

trace == 
    <<
    ([pc |-> <<<<1, 1>>, <<1, 1>>, <<1, 1>>>>,mem |-> (<<"input", 0>> :> "in" @@ <<"scratch", 0>> :> "none" @@ <<"result", 1>> :> "none" @@ <<"result", 2>> :> "none" @@ <<"result", 3>> :> "none"),lastAcc |-> (<<"input", 0>> :> {} @@ <<"scratch", 0>> :> {} @@ <<"result", 1>> :> {} @@ <<"result", 2>> :> {} @@ <<"result", 3>> :> {}),results |-> <<<<>>, <<>>, <<>>>>,conflict |-> FALSE]),
    ([pc |-> <<<<1, 2>>, <<1, 1>>, <<1, 1>>>>,mem |-> (<<"input", 0>> :> "in" @@ <<"scratch", 0>> :> "none" @@ <<"result", 1>> :> "none" @@ <<"result", 2>> :> "none" @@ <<"result", 3>> :> "none"),lastAcc |-> (<<"input", 0>> :> {<<1, "r">>} @@ <<"scratch", 0>> :> {} @@ <<"result", 1>> :> {} @@ <<"result", 2>> :> {} @@ <<"result", 3>> :> {}),results |-> <<<<>>, <<>>, <<>>>>,conflict |-> FALSE]),
    ([pc |-> <<<<1, 2>>, <<1, 2>>, <<1, 1>>>>,mem |-> (<<"input", 0>> :> "in" @@ <<"scratch", 0>> :> "none" @@ <<"result", 1>> :> "none" @@ <<"result", 2>> :> "none" @@ <<"result", 3>> :> "none"),lastAcc |-> (<<"input", 0>> :> {<<1, "r">>, <<2, "r">>} @@ <<"scratch", 0>> :> {} @@ <<"result", 1>> :> {} @@ <<"result", 2>> :> {} @@ <<"result", 3>> :> {}),results |-> <<<<>>, <<>>, <<>>>>,conflict |-> FALSE]),
    ([pc |-> <<<<1, 2>>, <<1, 3>>, <<1, 1>>>>,mem |-> (<<"input", 0>> :> "in" @@ <<"scratch", 0>> :> <<"f", 2, 1>> @@ <<"result", 1>> :> "none" @@ <<"result", 2>> :> "none" @@ <<"result", 3>> :> "none"),lastAcc |-> (<<"input", 0>> :> {<<1, "r">>, <<2, "r">>} @@ <<"scratch", 0>> :> {<<2, "w">>} @@ <<"result", 1>> :> {} @@ <<"result", 2>> :> {} @@ <<"result", 3>> :> {}),results |-> <<<<>>, <<>>, <<>>>>,conflict |-> FALSE]),
    ([pc |-> <<<<1, 3>>, <<1, 3>>, <<1, 1>>>>,mem |-> (<<"input", 0>> :> "in" @@ <<"scratch", 0>> :> <<"f", 1, 1>> @@ <<"result", 1>> :> "none" @@ <<"result", 2>> :> "none" @@ <<"result", 3>> :> "none"),lastAcc |-> (<<"input", 0>> :> {<<1, "r">>, <<2, "r">>} @@ <<"scratch", 0>> :> {<<1, "w">>, <<2, "w">>} @@ <<"result", 1>> :> {} @@ <<"result", 2>> :> {} @@ <<"result", 3>> :> {}),results |-> <<<<>>, <<>>, <<>>>>,conflict |-> TRUE])
    >>
----


=============================================================================

---- CONFIG Threads_TTrace_1790732606 ----
CONSTANTS
    Threads = { 1 , 2 , 3 }
    NOps = 2
    ScratchMode = "sharedStatic"

INVARIANT
    _inv

CHECK_DEADLOCK
    \* CHECK_DEADLOCK off because of PROPERTY or INVARIANT above.
    FALSE

INIT
    _init

NEXT
    _next

CONSTANT
    _TETrace <- _trace

ALIAS
    _expression
=============================================================================
\* Generated on Wed Sep 30 01:43:27 UTC 2026