SPECIFICATION Spec
CONSTANTS
  Alpha = {0, 65, 66, 97, 127, 128, 255}
  MaxLen = 2
INVARIANTS Antisymmetric ZeroIffEqual Transitive PrefixFirst Unsigned CompareNLaw FoldKernel SizedOrder
CHECK_DEADLOCK FALSE
