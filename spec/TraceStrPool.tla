---------------------------- MODULE TraceStrPool ----------------------------
(***************************************************************************)
(* Trace validation of recorded ST::string pool executions (C04, C18 and   *)
(* the string part of C19).  Every line is one public operation on real    *)
(* ST::string objects, with the projection of ALL live strings after it    *)
(* (bytes, size, storage owner, data-pointer token, terminator), every     *)
(* object a const operation returned, and the heap.  A step is accepted    *)
(* iff the post-state is what StringPool allows from the current state and *)
(* - where StringOps defines the value - the returned bytes are the        *)
(* reference result.                                                       *)
(***************************************************************************)
EXTENDS StringPool, StringOps, Unicode, TraceLib, Json, IOUtils, TLC

TraceLog == ndJsonDeserialize(IOEnv.TRACE)
OutFile  == IOEnv.OUT
NSlots   == 4

VARIABLES l, pool, wbits, skipping, hadFault, book, nsteps, nfault, nthrow, nconst, done
vars == <<l, pool, wbits, skipping, hadFault, book, nsteps, nfault, nthrow, nconst, done>>

AllDead == [s \in 1..NSlots |-> Dead]
Init == /\ l = 1 /\ pool = AllDead /\ wbits = 32 /\ skipping = TRUE /\ hadFault = FALSE /\ book = Book0
        /\ nsteps = 0 /\ nfault = 0 /\ nthrow = 0 /\ nconst = 0 /\ done = FALSE
Ev == TraceLog[l]
ToSet(q) == {q[k] : k \in 1..Len(q)}
PostPool(ev) == [s \in 1..NSlots |->
                   IF ev.post[s].st = "dead" THEN Dead ELSE Obj(ev.post[s].u, ev.post[s].stor, ev.post[s].addr)]

ObsOk(ev) ==
    LET post == PostPool(ev) IN
    /\ \A s \in 1..NSlots : ev.post[s].st = "live" =>
          /\ ev.post[s].bad = "" /\ ev.post[s].n = Len(ev.post[s].u) /\ ev.post[s].z = 0
    /\ Exclusive(post)
    /\ ToSet(ev.live) = Owned(post)
    /\ ev.badfree = 0

IsPre(p, s) == Len(s) >= Len(p) /\ SubSeq(s, 1, Len(p)) = p
StartsWithStr(name, pre) == \E k \in {Len(pre)} : k <= Len(name) /\ \A j \in 1..k : name[j] = pre[j]

W(n) == IF n < 0 THEN [s |-> -1, m |-> <<(0 - n) % 65536, (0 - n) \div 65536, 0, 0>>]
        ELSE [s |-> 1, m |-> <<n % 65536, n \div 65536, 0, 0>>]
Cnt(n) == IF n >= 1000000 THEN Huge ELSE W(n)
WS == <<32, 9, 13, 10>>
Delims == <<32, 44, 59, 9>>
Spaces(n) == [k \in 1..n |-> 32]

(* printf("%f", 1e100) and printf("%.70f", 0.5): the two float renderings used by the formatf operation *)
F1e100 == <<49, 48, 48, 48, 48, 48, 48, 48, 48, 48, 48, 48, 48, 48, 48, 48, 48, 49, 53, 57, 48, 50, 56, 57, 49, 49, 48, 57, 55, 53, 57, 57, 49, 56, 48, 52, 54, 56, 51, 54, 48, 56, 48, 56, 53, 54, 51, 57, 52, 53, 50, 56, 49, 51, 56, 57, 55, 56, 49, 51, 50, 55, 53, 53, 55, 55, 52, 55, 56, 51, 56, 55, 55, 50, 49, 55, 48, 51, 56, 49, 48, 54, 48, 56, 49, 51, 52, 54, 57, 57, 56, 53, 56, 53, 54, 56, 49, 53, 49, 48, 52, 46, 48, 48, 48, 48, 48, 48>>
Half70 == <<48, 46, 53>> \o [k \in 1..69 |-> 48]
(* the values a const operation must return (sequence of byte strings), or  *)
(* "any" where this module does not define them                             *)
OpName(ev) == SubSeq(ev.e, 7, Len(ev.e))
ExpVal(op, src, ev) ==
    CASE op = "copy" -> <<src>>
      [] op = "substr" -> <<Substr(src, W(ev.start), Cnt(ev.count))>>
      [] op = "left" -> <<Left(src, Cnt(ev.count))>>
      [] op = "right" -> <<Right(src, Cnt(ev.count))>>
      [] op = "trim" -> <<Trim(src, WS)>>
      [] op = "trim_left" -> <<TrimLeft(src, WS)>>
      [] op = "trim_right" -> <<TrimRight(src, WS)>>
      [] op = "to_upper" -> <<UpperSeq(src)>>
      [] op = "to_lower" -> <<FoldSeq(src)>>
      [] op = "replace" -> <<Replace(src, ev.from, ev.to, FALSE)>>
      [] op = "before_first" -> <<BeforeFirst(src, ev.sep, FALSE)>>
      [] op = "after_first" -> <<AfterFirst(src, ev.sep, FALSE)>>
      [] op = "before_last" -> <<BeforeLast(src, ev.sep, FALSE)>>
      [] op = "after_last" -> <<AfterLast(src, ev.sep, FALSE)>>
      [] op = "concat" -> IF ev.k = 1 THEN <<src \o ev.lit>> ELSE <<ev.lit \o src>>
      [] op = "concat_self" -> IF ev.other # 0 THEN <<src \o pool[ev.other].val>> ELSE <<src \o src>>
      [] op = "split" -> Split(src, ev.sep, Huge, FALSE)
      [] op = "tokenize" -> Tokenize(src, Delims)
      [] op \in {"to_utf8", "to_std", "to_latin_1", "stream"} -> <<src>>
      [] op = "format" -> IF ev.k = 1 \/ Len(src) >= 3 THEN <<src>> ELSE <<Spaces(3 - Len(src)) \o src>>
      [] op = "formatf" -> IF ev.k = 1 THEN <<src \o src \o src \o src \o src \o src \o <<124>> \o F1e100>> ELSE <<Half70 \o <<124>> \o src>>
      [] op = "observe" -> <<>>
      [] OTHER -> <<>>
Defined(op) == op \notin {"to_utf16", "to_utf32", "to_wchar"}
(* the value held by the slot a result was kept in *)
KeptValue(op, src, exp) ==
    CASE op \in {"to_utf16", "to_utf32", "to_wchar", "observe"} -> src
      [] op = "tokenize" -> IF exp = <<>> THEN <<>> ELSE exp[Len(exp)]
      [] OTHER -> exp[1]

AsciiOnly(v) == \A k \in 1..Len(v) : v[k] < 128
WideEncOf(op) == CASE op = "to_utf16" -> "utf16" [] op = "to_utf32" -> "utf32" [] op = "to_latin_1" -> "latin1"
                   [] OTHER -> (IF wbits = 32 THEN "utf32" ELSE "utf16")
Transcoding == {"to_utf16", "to_utf32", "to_wchar", "to_latin_1"}
ResultsOk(op, ev, exp) ==
    /\ \A k \in 1..Len(ev.res) : ev.res[k].own = 1 /\ ev.res[k].z = 0
    /\ IF op \in Transcoding /\ (~Defined(op) \/ ~AsciiOnly(pool[ev.a].val))
       THEN \* a transcoding result: its size is the size of the reference transcoding (its units are C01's business)
            Len(ev.res) = 1 /\ ev.res[1].n = Len(RefOut("utf8", WideEncOf(op), pool[ev.a].val, TRUE))
       ELSE \/ ev.b # 0 /\ op \notin {"split", "tokenize", "to_utf8", "to_std", "to_latin_1"}   \* kept directly: it is in the pool
            \/ /\ Len(ev.res) = Len(exp)
               /\ \A k \in 1..Len(exp) : ev.res[k].u = exp[k] /\ ev.res[k].n = Len(exp[k])

IsConst(ev) == Len(ev.e) > 6 /\ SubSeq(ev.e, 1, 6) = "const:"
IsSet(ev)   == Len(ev.e) > 4 /\ SubSeq(ev.e, 1, 4) = "set:"
IsSelfSet(ev) == Len(ev.e) > 8 /\ SubSeq(ev.e, 1, 8) = "selfset:"
RECURSIVE CutNul(_)
CutNul(q) == IF q = <<>> \/ Head(q) = 0 THEN <<>> ELSE <<Head(q)>> \o CutNul(Tail(q))
(* the value after an assignment whose argument lies in the target's own storage *)
SelfValue(ev, v) ==
    LET f == SubSeq(ev.e, 9, Len(ev.e)) IN
    CASE f = "suffix" -> CutNul(Drop(v, ev.k))               \* s = s.c_str() + k   (NUL-terminated form)
      [] f = "prefix" -> Take(v, ev.k)                       \* s.set(s.c_str(), k)
      [] f = "view"   -> Drop(v, ev.k)                       \* s = string_view(s.c_str() + k, size - k)
      [] f = "appendself" -> v \o CutNul(v)                  \* s += s.c_str()
IsThrowOp(ev) == Len(ev.e) >= 5 /\ SubSeq(ev.e, 1, 5) = "throw"

StepOk(ev, post) ==
    IF IsConst(ev)
    THEN LET op  == OpName(ev)
             src == pool[ev.a].val
             exp == ExpVal(op, src, ev)
         IN /\ IsLive(pool, ev.a)
            /\ ResultsOk(op, ev, exp)
            /\ ConstOpOk(pool, post, ev.b, IF ev.b = 0 THEN <<>>
                                           ELSE IF op \in Transcoding /\ ~AsciiOnly(src) THEN post[ev.b].val   \* (value: C01)
                                           ELSE KeptValue(op, src, exp))
    ELSE IF ev.e = "set:substbad"        \* malformed bytes under substitute_invalid: the repaired text (Unicode!RefOut)
         THEN IsLive(pool, ev.a) /\ WriteOk(pool, post, ev.a, RefOut("utf8", "utf8", ev.data, TRUE))
    ELSE IF IsSet(ev) THEN IsLive(pool, ev.a) /\ WriteOk(pool, post, ev.a, ev.data)
    \* (sub = 1: the call passes substitute_invalid - the repaired slice, and never a refusal)
    ELSE IF IsSelfSet(ev) THEN IsLive(pool, ev.a) /\ WriteOk(pool, post, ev.a, IF ev.sub = 1 THEN RefOut("utf8", "utf8", SelfValue(ev, pool[ev.a].val), TRUE)
                                                                                  ELSE SelfValue(ev, pool[ev.a].val))
    ELSE CASE ev.e = "construct" -> ~IsLive(pool, ev.a) /\ WriteOk(pool, post, ev.a, ev.data)
           [] ev.e = "copyconstruct" -> ~IsLive(pool, ev.a) /\ IsLive(pool, ev.b) /\ WriteOk(pool, post, ev.a, pool[ev.b].val)
           [] ev.e = "moveconstruct" -> ~IsLive(pool, ev.a) /\ IsLive(pool, ev.b) /\ ev.a # ev.b /\ MoveOk(pool, post, ev.a, ev.b)
           [] ev.e = "copyassign" -> IsLive(pool, ev.a) /\ IsLive(pool, ev.b) /\ WriteOk(pool, post, ev.a, pool[ev.b].val)
           [] ev.e = "moveassign" -> /\ IsLive(pool, ev.a) /\ IsLive(pool, ev.b)
                                     /\ IF ev.a = ev.b THEN OnlyTouched(pool, post, {ev.a}) /\ IsLive(post, ev.a)
                                        ELSE MoveOk(pool, post, ev.a, ev.b)
           [] ev.e = "append" -> IsLive(pool, ev.a) /\ IsLive(pool, ev.b) /\ WriteOk(pool, post, ev.a, pool[ev.a].val \o pool[ev.b].val)
           [] ev.e = "appendlit" -> IsLive(pool, ev.a) /\ WriteOk(pool, post, ev.a, pool[ev.a].val \o ev.data)
           [] ev.e = "clear" -> IsLive(pool, ev.a) /\ WriteOk(pool, post, ev.a, <<>>)
           [] ev.e = "destroy" -> DestroyOk(pool, post, ev.a)
           [] OTHER -> FALSE

(* the object a failing step would have written *)
TargetOf(ev) == IF IsConst(ev) THEN 0 ELSE ev.a

Accept(ev) ==
    LET post == PostPool(ev) IN
    /\ ObsOk(ev)
    /\ CASE ev.exc = "none" -> /\ ~IsThrowOp(ev) /\ StepOk(ev, post)
                               /\ ev.argmode = "lvalue" => ev.argkept = 1        \* a buffer passed by reference is only read
         [] ev.exc = "unicode_error" ->
               \/ IsThrowOp(ev) /\ ThrowOk(pool, post) /\ ev.argkept # 0
               \* a slice of the string's own bytes that cuts a multi-byte character is malformed: refused, nothing changes
               \/ IsSelfSet(ev) /\ ev.sub = 0 /\ ev.val = 0 /\ IsLive(pool, ev.a) /\ ThrowOk(pool, post)
                  /\ AnyBad(Items("utf8", SelfValue(ev, pool[ev.a].val)))
               \* once the pool holds non-ASCII bytes (repaired text, slices through a multi-byte character), an operation
               \* that validates may refuse them; what matters here is that the refusal changed nothing
               \/ ThrowOk(pool, post) /\ (\E q \in LiveSlots(pool) : ~AsciiOnly(pool[q].val)) /\ ~(IsSelfSet(ev) /\ (ev.sub = 1 \/ ev.val = 1))
         [] ev.exc = "bad_alloc" -> ev.fault > 0 /\ FaultOk(pool, post, TargetOf(ev))
         [] OTHER -> FALSE

(* Which statements a rejected step contradicts.  A step that was meant to  *)
(* throw and did not is a validation matter (C02), not C04/C18.            *)
PropOf(ev) == IF "fault" \in DOMAIN ev /\ ev.fault > 0 THEN <<"C19">>
              ELSE IF "exc" \in DOMAIN ev /\ ev.exc = "none" /\ IsThrowOp(ev) THEN <<"C02">>
              ELSE IF IsThrowOp(ev) THEN <<"C18">>
              ELSE <<"C04">>
Rej(ev, what) == [line |-> l, i |-> ev.i, k |-> 0, what |-> what, cls |-> ev.e, props |-> PropOf(ev), kf |-> "none"]

TPlatform == Ev.e = "Platform" /\ wbits' = Ev.wchar_bits /\ UNCHANGED <<pool, skipping, hadFault, book, nsteps, nfault, nthrow, nconst>>
TReset == /\ Ev.e = "reset" /\ pool' = AllDead /\ skipping' = FALSE /\ hadFault' = FALSE
          /\ UNCHANGED <<wbits, book, nsteps, nfault, nthrow, nconst>>
TEnd ==
    /\ Ev.e = "end"
    /\ IF skipping THEN UNCHANGED book
       ELSE IF ToSet(Ev.live) = {} /\ Ev.badfree = 0 THEN UNCHANGED book
       ELSE book' = BookAdd(book, << [line |-> l, i |-> Ev.i, k |-> 0, what |-> "leak at end",
                                      props |-> IF hadFault THEN <<"C19">> ELSE <<"C04">>, kf |-> "none"] >>)
    /\ pool' = AllDead /\ skipping' = TRUE
    /\ UNCHANGED <<wbits, hadFault, nsteps, nfault, nthrow, nconst>>
TAbnormal ==
    /\ Ev.e = "Abnormal"
    /\ book' = BookAdd(book, << [line |-> l, i |-> Ev.i, k |-> 0, what |-> "abnormal",
                                 props |-> IF "fault" \in DOMAIN Ev.during /\ Ev.during.fault > 0 THEN <<"C19">>
                                           ELSE IF "e" \in DOMAIN Ev.during /\ IsThrowOp(Ev.during) THEN <<"C18">>
                                           ELSE <<"C04">>,
                                 kf |-> "none"] >>)
    /\ skipping' = TRUE
    /\ UNCHANGED <<pool, wbits, hadFault, nsteps, nfault, nthrow, nconst>>
TOp ==
    /\ Ev.e \notin {"Platform", "reset", "end", "Abnormal"}
    /\ UNCHANGED wbits
    /\ IF skipping THEN UNCHANGED <<pool, skipping, book, nsteps, nfault, nthrow, nconst, hadFault>>
       ELSE /\ nsteps' = nsteps + 1
            /\ nfault' = nfault + (IF Ev.exc = "bad_alloc" THEN 1 ELSE 0)
            /\ nthrow' = nthrow + (IF Ev.exc = "unicode_error" THEN 1 ELSE 0)
            /\ nconst' = nconst + (IF IsConst(Ev) THEN 1 ELSE 0)
            /\ hadFault' = (hadFault \/ Ev.fault > 0)
            /\ IF Accept(Ev)
               THEN pool' = PostPool(Ev) /\ UNCHANGED <<skipping, book>>
               ELSE /\ book' = BookAdd(book, << Rej(Ev, "step") >>)
                    /\ skipping' = TRUE /\ UNCHANGED pool

TStep == /\ ~done /\ l <= Len(TraceLog)
         /\ (TPlatform \/ TReset \/ TOp \/ TEnd \/ TAbnormal)
         /\ l' = l + 1 /\ done' = FALSE
TFinish ==
    /\ ~done /\ l = Len(TraceLog) + 1
    /\ ndJsonSerialize(OutFile, << [lines |-> Len(TraceLog), nrej |-> book.nrej, kfn |-> book.kfn,
                                    n_decided |-> nsteps, n_fault_steps |-> nfault, n_throwing_steps |-> nthrow,
                                    n_const_ops |-> nconst, rej |-> book.rej] >>)
    /\ done' = TRUE
    /\ UNCHANGED <<l, pool, wbits, skipping, hadFault, book, nsteps, nfault, nthrow, nconst>>
Next == TStep \/ TFinish
Spec == Init /\ [][Next]_vars
Accepted == TLCGet("stats").diameter = Len(TraceLog) + 2
=============================================================================
