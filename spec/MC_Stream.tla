------------------------------ MODULE MC_Stream ------------------------------
(***************************************************************************)
(* Bounded instance of Stream used (a) to model-check the abstract stream  *)
(* pool and (b) as the generator of operation schedules (every explored    *)
(* transition is emitted; bin/check turns the graph into schedules that    *)
(* cover every (state, operation) edge on real ST::string_stream objects). *)
(* For navigation the model carries the capacity the current design would  *)
(* have (256 in-object bytes, doubling); the trace specification does not  *)
(* constrain capacities, so a different growth policy only relabels which  *)
(* edges a schedule covers.  Content lengths are driven to the boundary    *)
(* classes around 256, 512, 1024 and one multi-doubling jump.              *)
(***************************************************************************)
EXTENDS Stream, Json

CONSTANTS Slots, Targets, EmitEdges, WithFaults
STACK == 256

VARIABLES pool, cap, act
vars == <<pool, cap, act>>
View == <<pool, cap>>

RECURSIVE Grow(_, _)
Grow(big, need) == IF need > big THEN Grow(big * 2, need) ELSE big
Blk(s) == s
LenOf(s) == CLen(pool[s].val)
(* positional test pattern: the byte at offset k is 'a' + k mod 23 *)
PatData(at, n) == Run(97 + (at % Period), n)
StorOf(s, c) == IF c > STACK THEN Blk(s) ELSE Self

Init == pool = [s \in Slots |-> Dead] /\ cap = [s \in Slots |-> 0] /\ act = [n |-> "init"]

Construct(s) ==
    /\ ConstructG(pool, s) /\ pool' = ConstructR(pool, s) /\ cap' = [cap EXCEPT ![s] = STACK]
    /\ act' = [n |-> "construct", a |-> s, b |-> 0, len |-> 0]

AppendTo(s, t, kind) ==
    /\ AppendG(pool, s) /\ t > LenOf(s)
    /\ LET c == IF t > cap[s] THEN Grow(cap[s] * 2, t) ELSE cap[s] IN
       /\ pool' = AppendR(pool, s, PatData(LenOf(s), t - LenOf(s)), StorOf(s, c))
       /\ cap' = [cap EXCEPT ![s] = c]
    /\ act' = [n |-> kind, a |-> s, b |-> 0, len |-> t - LenOf(s)]

AppendFault(s, t) ==
    /\ WithFaults /\ AppendG(pool, s) /\ t > cap[s]
    /\ UNCHANGED <<pool, cap>>
    /\ act' = [n |-> "fault append", a |-> s, b |-> 0, len |-> t - LenOf(s)]

Truncate(s, t) ==
    /\ TruncateG(pool, s) /\ t < LenOf(s)
    /\ pool' = TruncateR(pool, s, t, pool[s].stor) /\ UNCHANGED cap
    /\ act' = [n |-> "truncate", a |-> s, b |-> 0, len |-> t]
TruncateNoop(s) ==
    /\ TruncateG(pool, s) /\ pool' = TruncateR(pool, s, LenOf(s) + 1, pool[s].stor) /\ UNCHANGED cap
    /\ act' = [n |-> "truncate", a |-> s, b |-> 0, len |-> LenOf(s) + 1]
Erase(s, t) ==
    /\ TruncateG(pool, s) /\ t < LenOf(s)
    /\ pool' = EraseR(pool, s, LenOf(s) - t, pool[s].stor) /\ UNCHANGED cap
    /\ act' = [n |-> "erase", a |-> s, b |-> 0, len |-> LenOf(s) - t]
EraseAll(s) ==
    /\ TruncateG(pool, s) /\ pool' = EraseR(pool, s, LenOf(s) + 5, pool[s].stor) /\ UNCHANGED cap
    /\ act' = [n |-> "erase", a |-> s, b |-> 0, len |-> LenOf(s) + 5]

MoveConstruct(d, s) ==
    /\ MoveConstructG(pool, d, s)
    /\ pool' = MoveR(pool, d, s, StorOf(d, cap[s]), Self) /\ cap' = [cap EXCEPT ![d] = cap[s], ![s] = STACK]
    /\ act' = [n |-> "moveconstruct", a |-> d, b |-> s, len |-> 0]
MoveAssign(d, s) ==
    /\ MoveAssignG(pool, d, s)
    /\ pool' = MoveR(pool, d, s, StorOf(d, cap[s]), Self) /\ cap' = [cap EXCEPT ![d] = cap[s], ![s] = STACK]
    /\ act' = [n |-> "moveassign", a |-> d, b |-> s, len |-> 0]

ToStr(s) == /\ IsLive(pool, s) /\ UNCHANGED <<pool, cap>>
            /\ act' = [n |-> "tostring", a |-> s, b |-> 0, len |-> 0]
Destroy(s) ==
    /\ DestroyG(pool, s) /\ pool' = DestroyR(pool, s) /\ cap' = [cap EXCEPT ![s] = 0]
    /\ act' = [n |-> "destroy", a |-> s, b |-> 0, len |-> 0]

Next ==
    \/ \E s \in Slots : Construct(s) \/ Destroy(s) \/ ToStr(s) \/ TruncateNoop(s) \/ EraseAll(s)
    \/ \E s \in Slots, t \in Targets, k \in {"append", "appendchar", "ins"} : AppendTo(s, t, k)
    \/ \E s \in Slots, t \in Targets : AppendFault(s, t)
    \/ \E s \in Slots, t \in Targets \cup {0} : Truncate(s, t) \/ Erase(s, t)
    \/ \E d, s \in Slots : MoveConstruct(d, s) \/ MoveAssign(d, s)
Spec == Init /\ [][Next]_vars

---------------------------------------------------------------------------
TypeOK == \A s \in Slots : pool[s] = Dead \/ (pool[s].st = "live" /\ Canonical(pool[s].val)
                                             /\ pool[s].stor \in {Self} \cup Slots)
ExclusiveInv == Exclusive(pool)
(* the content is the positional pattern of its length: what the plain     *)
(* byte-string model yields for appends of pattern data and cuts           *)
ContentIsPattern == \A s \in Slots : IsLive(pool, s) =>
                       ToBytes(pool[s].val) = [k \in 1..LenOf(s) |-> 97 + ((k - 1) % Period)]
Touches == IF act'.n \in {"moveconstruct", "moveassign"} THEN {act'.a, act'.b} ELSE {act'.a}
OnlyNamedObjectsChange == [][OnlyTouched(pool, pool', Touches)]_vars
MovedFromIsEmpty == [][act'.n \in {"moveconstruct", "moveassign"} => pool'[act'.b] = Empty]_vars
FaultsChangeNothing == [][act'.n = "fault append" => pool' = pool]_vars

SlotKey(s) == IF pool[s] = Dead THEN "D" ELSE ToString(LenOf(s)) \o "/" \o ToString(cap[s])
SlotKeyN(s) == IF pool'[s] = Dead THEN "D" ELSE ToString(CLen(pool'[s].val)) \o "/" \o ToString(cap'[s])
RECURSIVE KeyFrom(_, _)
KeyFrom(s, nxt) == IF s \notin Slots THEN "" ELSE (IF nxt THEN SlotKeyN(s) ELSE SlotKey(s)) \o "." \o KeyFrom(s + 1, nxt)
Emit == ~EmitEdges \/ PrintT("EDGE " \o ToJson([f |-> KeyFrom(1, FALSE), t |-> KeyFrom(1, TRUE), a |-> act']))
=============================================================================
