SPECIFICATION Spec
CONSTANTS
  MaxLen8 = 5
  MaxLen16 = 5
  MaxLen32 = 4
INVARIANTS Deciders8Agree RepairIsValid8 Isolation DecisionSameForAllTargets RepairRevalidates OneReplacementPerBadUnit
CHECK_DEADLOCK FALSE
