---------------------------- MODULE TraceCodecs ----------------------------
(***************************************************************************)
(* Trace validation of recorded hex / base64 calls (C14, C15).             *)
(***************************************************************************)
EXTENDS Codecs, TraceLib, Json, IOUtils, TLC

TraceLog == ndJsonDeserialize(IOEnv.TRACE)
OutFile  == IOEnv.OUT

VARIABLES l, book, ndec, done
vars == <<l, book, ndec, done>>
Init == l = 1 /\ book = Book0 /\ ndec = 0 /\ done = FALSE
Ev == TraceLog[l]

OkV(r, v) == r.res = "ok" /\ r.v = v
Upper(s) == [i \in 1..Len(s) |-> IF s[i] >= 97 /\ s[i] <= 102 THEN s[i] - 32 ELSE s[i]]

(* C14: standard encodings, and both decoders return the original bytes *)
EncBad(ev) ==
    LET d == ev.data  n == Len(d) IN
    (IF OkV(ev.hex, HexEnc(d)) /\ OkV(ev.hex_buf, HexEnc(d)) THEN <<>> ELSE <<"hex_encode">>)
 \o (IF OkV(ev.b64, B64Enc(d)) /\ OkV(ev.b64_buf, B64Enc(d)) THEN <<>> ELSE <<"base64_encode">>)
 \o (IF OkV(ev.hex_back, d) /\ OkV(ev.hex_upper_back, d) THEN <<>> ELSE <<"hex_decode of encoding">>)
 \o (IF ev.hex_back_cb.res = "ok" /\ ev.hex_back_cb.v.ret = n /\ ev.hex_back_cb.v.buf = d THEN <<>> ELSE <<"hex_decode(buffer) of encoding">>)
 \o (IF OkV(ev.b64_back, d) THEN <<>> ELSE <<"base64_decode of encoding">>)
 \o (IF ev.b64_back_cb.res = "ok" /\ ev.b64_back_cb.v.ret = n /\ ev.b64_back_cb.v.buf = d THEN <<>> ELSE <<"base64_decode(buffer) of encoding">>)
 \o (IF ev.b64_size_null.res = "ok" /\ ev.b64_size_null.v.ret = n /\ ev.hex_size_null.res = "ok" /\ ev.hex_size_null.v.ret = n
     THEN <<>> ELSE <<"size for null output">>)
 \o (IF \A k \in 1..Len(ev.hex_cb_al) : ev.hex_cb_al[k].ret = n /\ ev.hex_cb_al[k].buf = d THEN <<>> ELSE <<"hex_decode(buffer at every alignment) of encoding">>)
 \o (IF \A k \in 1..Len(ev.b64_cb_al) : ev.b64_cb_al[k].ret = n /\ ev.b64_cb_al[k].buf = d THEN <<>> ELSE <<"base64_decode(buffer at every alignment) of encoding">>)

(* C15: acceptance, return values, bytes written *)
DecBad(ev) ==
    LET s == ev.text
        a == DecodeAlloc(ev.kind, s) IN
    (IF ev.alloc.res = a.res /\ (a.res = "ok" => ev.alloc.v = a.out) THEN <<>> ELSE <<"allocating decoder">>)
 \o (IF ev.null.ret = DecodeBufRet(ev.kind, s, TRUE, 0) THEN <<>> ELSE <<"null output">>)
 \o (IF \A k \in 1..Len(ev.sized) :
           LET want == DecodeBufRet(ev.kind, s, FALSE, k - 1) IN
           /\ ev.sized[k].ret = want
           /\ (want >= 0 => ev.sized[k].buf = a.out)
     THEN <<>> ELSE <<"caller buffer">>)
 \o (IF \A k \in 1..Len(ev.huge) :          \* a stated capacity of SIZE_MAX / 2^63 over a buffer that is large enough
           LET want == DecodeBufRet(ev.kind, s, FALSE, Len(ev.sized) - 1) IN
           ev.huge[k].ret = want /\ (want >= 0 => ev.huge[k].buf = a.out)
     THEN <<>> ELSE <<"caller buffer with overstated capacity">>)

RecsOf(ev, names, prop) == [j \in 1..Len(names) |-> [line |-> l, i |-> ev.i, k |-> j, what |-> names[j], props |-> <<prop>>, kf |-> "none"]]

(* large inputs: lengths 2n and 4*ceil(n/3), '=' padding of the last group, and decoding gives the bytes back *)
EncBigBad(ev) ==
    LET n == ev.n
        pad == (3 - (n % 3)) % 3
        tl == ev.tail IN
    IF ev.res # "ok" THEN <<"large input: exception">>
    ELSE (IF ev.hexlen = 2 * n /\ ev.b64len = 4 * ((n + 2) \div 3) THEN <<>> ELSE <<"large input: encoded length">>)
      \o (IF Len(tl) = 4 /\ (\A k \in 1..4 : (tl[k] = 61) <=> (k > 4 - pad)) THEN <<>> ELSE <<"large input: padding">>)
      \o (IF ev.hex_back = 1 /\ ev.b64_back = 1 /\ ev.b64_back_cb = 1 /\ ev.hex_back_cb = 1 /\ ev.b64_null = n /\ ev.hex_null = n
          THEN <<>> ELSE <<"large input: decoding back">>)
TEncBig == Ev.e = "encbig" /\ book' = BookAdd(book, RecsOf(Ev, EncBigBad(Ev), "C14")) /\ ndec' = ndec + 8
TPlatform == Ev.e = "Platform" /\ UNCHANGED <<book, ndec>>
TEnc == Ev.e = "enc" /\ book' = BookAdd(book, RecsOf(Ev, EncBad(Ev), "C14")) /\ ndec' = ndec + 11
TDec == Ev.e = "dec" /\ book' = BookAdd(book, RecsOf(Ev, DecBad(Ev), "C15")) /\ ndec' = ndec + 2 + Len(Ev.sized)
TAbnormal == /\ Ev.e = "Abnormal"
             /\ book' = BookAdd(book, << [line |-> l, i |-> Ev.i, k |-> 0, what |-> "abnormal",
                                          props |-> IF "e" \in DOMAIN Ev.during /\ Ev.during.e \in {"enc", "encbig"} THEN <<"C14">> ELSE <<"C15">>,
                                          kf |-> "none"] >>)
             /\ UNCHANGED ndec
TStep == /\ ~done /\ l <= Len(TraceLog) /\ (TPlatform \/ TEnc \/ TEncBig \/ TDec \/ TAbnormal) /\ l' = l + 1 /\ done' = FALSE
TFinish == /\ ~done /\ l = Len(TraceLog) + 1
           /\ ndJsonSerialize(OutFile, << [lines |-> Len(TraceLog), nrej |-> book.nrej, kfn |-> book.kfn,
                                           n_decided |-> ndec, rej |-> book.rej] >>)
           /\ done' = TRUE /\ UNCHANGED <<l, book, ndec>>
Next == TStep \/ TFinish
Spec == Init /\ [][Next]_vars
Accepted == TLCGet("stats").diameter = Len(TraceLog) + 2
=============================================================================
