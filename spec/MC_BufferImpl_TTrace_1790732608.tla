---- MODULE MC_BufferImpl_TTrace_1790732608 ----
EXTENDS Sequences, TLCExt, Toolbox, MC_BufferImpl, Naturals, TLC

_expression ==
    LET MC_BufferImpl_TEExpression == INSTANCE MC_BufferImpl_TEExpression
    IN MC_BufferImpl_TEExpression!expression
----

_trace ==
    LET MC_BufferImpl_TETrace == INSTANCE MC_BufferImpl_TETrace
    IN MC_BufferImpl_TETrace!trace
----

_inv ==
    ~(
        TLCGet("level") = Len(_TETrace)
        /\
        act = (<<"moveassign", 2, 1>>)
        /\
        err = ("none")
        /\
        obj = (<<[live |-> TRUE, chars |-> <<"data", 2>>, size |-> 0, data |-> <<0, 0>>], [live |-> TRUE, chars |-> <<"data", 2>>, size |-> 0, data |-> <<0, 0>>]>>)
        /\
        want = (<<[k |-> "any", v |-> <<>>], [k |-> "val", v |-> <<>>]>>)
        /\
        heap = (<<[live |-> FALSE, mem |-> <<>>], [live |-> FALSE, mem |-> <<>>], [live |-> FALSE, mem |-> <<>>]>>)
    )
----

_init ==
    /\ heap = _TETrace[1].heap
    /\ act = _TETrace[1].act
    /\ obj = _TETrace[1].obj
    /\ want = _TETrace[1].want
    /\ err = _TETrace[1].err
----

_next ==
    /\ \E i,j \in DOMAIN _TETrace:
        /\ \/ /\ j = i + 1
              /\ i = TLCGet("level")
        /\ heap  = _TETrace[i].heap
        /\ heap' = _TETrace[j].heap
        /\ act  = _TETrace[i].act
        /\ act' = _TETrace[j].act
        /\ obj  = _TETrace[i].obj
        /\ obj' = _TETrace[j].obj
        /\ want  = _TETrace[i].want
        /\ want' = _TETrace[j].want
        /\ err  = _TETrace[i].err
        /\ err' = _TETrace[j].err

\* Uncomment the ASSUME below to write the states of the error trace
\* to the given file in Json format. Note that you can pass any tuple
\* to `JsonSerialize`. For example, a sub-sequence of _TETrace.
    \* ASSUME
    \*     LET J == INSTANCE Json
    \*         IN J!JsonSerialize("MC_BufferImpl_TTrace_1790732608.json", _TETrace)

=============================================================================

 Note that you can extract this module `MC_BufferImpl_TEExpression`
  to a dedicated file to reuse `expression` (the module in the 
  dedicated `MC_BufferImpl_TEExpression.tla` file takes precedence 
  over the module `MC_BufferImpl_TEExpression` below).

---- MODULE MC_BufferImpl_TEExpression ----
EXTENDS Sequences, TLCExt, Toolbox, MC_BufferImpl, Naturals, TLC

expression == 
    [
        \* To hide variables of the `MC_BufferImpl` spec from the error trace,
        \* remove the variables below.  The trace will be written in the order
        \* of the fields of this record.
        heap |-> heap
        ,act |-> act
        ,obj |-> obj
        ,want |-> want
        ,err |-> err
        
        \* Put additional constant-, state-, and action-level expressions here:
        \* ,_stateNumber |-> _TEPosition
        \* ,_heapUnchanged |-> heap = heap'
        
        \* Format the `heap` variable as Json value.
        \* ,_heapJson |->
        \*     LET J == INSTANCE Json
        \*     IN J!ToJson(heap)
        
        \* Lastly, you may build expressions over arbitrary sets of states by
        \* leveraging the _TETrace operator.  For example, this is how to
        \* count the number of times a spec variable changed up to the current
        \* state in the trace.
        \* ,_heapModCount |->
        \*     LET F[s \in DOMAIN _TETrace] ==
        \*         IF s = 1 THEN 0
        \*         ELSE IF _TETrace[s].heap # _TETrace[s-1].heap
        \*             THEN 1 + F[s-1] ELSE F[s-1]
        \*     IN F[_TEPosition - 1]
    ]

=============================================================================



Parsing and semantic processing can take forever if the trace below is long.
 In this case, it is advised to uncomment the module below to deserialize the
 trace from a generated binary file.

\*
\*---- MODULE MC_BufferImpl_TETrace ----
\*EXTENDS IOUtils, MC_BufferImpl, TLC
\*
\*trace == IODeserialize("MC_BufferImpl_TTrace_1790732608.bin", TRUE)
\*
\*=============================================================================
\*

---- MODULE MC_BufferImpl_TETrace ----
EXTENDS MC_BufferImpl, TLC

trace == 
    <<
    ([act |-> "init",err |-> "none",obj |-> <<[live |-> FALSE, chars |-> <<"data", 0>>, size |-> 0, data |-> <<0, 0>>], [live |-> FALSE, chars |-> <<"data", 0>>, size |-> 0, data |-> <<0, 0>>]>>,want |-> <<[k |-> "any", v |-> <<>>], [k |-> "any", v |-> <<>>]>>,heap |-> <<[live |-> FALSE, mem |-> <<>>], [live |-> FALSE, mem |-> <<>>], [live |-> FALSE, mem |-> <<>>]>>]),
    ([act |-> <<"ctor", 1, <<>>, FALSE>>,err |-> "none",obj |-> <<[live |-> TRUE, chars |-> <<"data", 1>>, size |-> 0, data |-> <<0, 0>>], [live |-> FALSE, chars |-> <<"data", 0>>, size |-> 0, data |-> <<0, 0>>]>>,want |-> <<[k |-> "val", v |-> <<>>], [k |-> "any", v |-> <<>>]>>,heap |-> <<[live |-> FALSE, mem |-> <<>>], [live |-> FALSE, mem |-> <<>>], [live |-> FALSE, mem |-> <<>>]>>]),
    ([act |-> <<"ctor", 2, <<>>, FALSE>>,err |-> "none",obj |-> <<[live |-> TRUE, chars |-> <<"data", 1>>, size |-> 0, data |-> <<0, 0>>], [live |-> TRUE, chars |-> <<"data", 2>>, size |-> 0, data |-> <<0, 0>>]>>,want |-> <<[k |-> "val", v |-> <<>>], [k |-> "val", v |-> <<>>]>>,heap |-> <<[live |-> FALSE, mem |-> <<>>], [live |-> FALSE, mem |-> <<>>], [live |-> FALSE, mem |-> <<>>]>>]),
    ([act |-> <<"moveassign", 2, 1>>,err |-> "none",obj |-> <<[live |-> TRUE, chars |-> <<"data", 2>>, size |-> 0, data |-> <<0, 0>>], [live |-> TRUE, chars |-> <<"data", 2>>, size |-> 0, data |-> <<0, 0>>]>>,want |-> <<[k |-> "any", v |-> <<>>], [k |-> "val", v |-> <<>>]>>,heap |-> <<[live |-> FALSE, mem |-> <<>>], [live |-> FALSE, mem |-> <<>>], [live |-> FALSE, mem |-> <<>>]>>])
    >>
----


=============================================================================

---- CONFIG MC_BufferImpl_TTrace_1790732608 ----
CONSTANTS
    Slots = { 1 , 2 }
    L = 2
    Lens = { 0 , 1 , 2 , 3 }
    Units = { 1 , 2 }
    NB = 3
    Variant = "asis"
    WithFaults = TRUE

INVARIANT
    _inv

CHECK_DEADLOCK
    \* CHECK_DEADLOCK off because of PROPERTY or INVARIANT above.
    FALSE

INIT
    _init

NEXT
    _next

CONSTANT
    _TETrace <- _trace

ALIAS
    _expression
=============================================================================
\* Generated on Wed Sep 30 01:43:29 UTC 2026