----------------------------- MODULE MC_Unicode -----------------------------
(***************************************************************************)
(* Model-level checks of the Unicode reference itself (C01):               *)
(*  - every scalar value survives encode/decode in each encoding, with the *)
(*    standard sequence lengths (ASSUME, all 1,112,064 scalars);           *)
(*  - for every scalar sequence over a boundary alphabet, every            *)
(*    source/target pair and every validation mode, the conversion         *)
(*    relation admits exactly the standard encoding and never an error.    *)
(* Each state is one (sequence, source, target, mode) case.                *)
(***************************************************************************)
EXTENDS Unicode, TLC

CONSTANTS Alpha, MaxLen, ScalarStep   \* ASSUME sweeps every ScalarStep-th scalar

VARIABLES sc, src, dst, mode
vars == <<sc, src, dst, mode>>

AllLatin(s) == \A k \in 1..Len(s) : s[k] < 256

(* the scalar sequence grows one value at a time (trie walk: all workers) *)
Init == /\ sc = <<>>
        /\ src \in Encodings /\ dst \in Encodings /\ mode \in Modes
Next == /\ Len(sc) < MaxLen
        /\ \E a \in Alpha : (src = "latin1" => a < 256) /\ sc' = Append(sc, a)
        /\ UNCHANGED <<src, dst, mode>>
Spec == Init /\ [][Next]_vars

U == EncSeq(src, sc)

(* the standard target encoding; Latin-1 targets substitute '?' *)
RECURSIVE L1Seq(_)
L1Seq(s) == IF s = <<>> THEN <<>> ELSE <<IF Head(s) < 256 THEN Head(s) ELSE 63>> \o L1Seq(Tail(s))
Expected == IF dst = "latin1" THEN L1Seq(sc) ELSE EncSeq(dst, sc)

InputWellFormed == WellFormed(src, U)
DecodesBack == LET its == Items(src, U) IN
                 /\ Len(its) = Len(sc)
                 /\ \A k \in 1..Len(sc) : ~its[k].bad /\ its[k].cp = sc[k]
Lossless      == ConvAllowed(src, dst, mode, TRUE, U, "ok", Expected)
NeverAnError  == ~ConvAllowed(src, dst, mode, TRUE, U, "unicode_error", <<>>)
NothingElse   == \A k \in 1..Len(Expected) :
                   ~ConvAllowed(src, dst, mode, TRUE, U, "ok", SubSeq(Expected, 1, k - 1))
SameInAllModes == \A m \in Modes : Conv(src, dst, m, TRUE, U) = Conv(src, dst, mode, TRUE, U)
RangeError == (dst = "latin1" /\ ~AllLatin(sc)) =>
                 /\ ConvAllowed(src, dst, mode, FALSE, U, "unicode_error", <<>>)
                 /\ ~ConvAllowed(src, dst, mode, FALSE, U, "ok", Expected)
Chain == \* any chain through a third encoding returns the original units
    \A mid \in Encodings \ {"latin1"} :
        LET a == Conv(src, mid, mode, TRUE, U) IN
        a.res = "ok" /\ (dst # "latin1" =>
            Conv(mid, dst, mode, TRUE, a.out) = [res |-> "ok", out |-> Expected])

(* every scalar, each encoding: decode(encode(c)) = c with standard lengths *)
ScalarRoundTrip(c) ==
    /\ Items("utf8", Enc8(c)) = << [bad |-> FALSE, cp |-> c, n |-> Len(Enc8(c)), at |-> 1] >>
    /\ Items("utf16", Enc16(c)) = << [bad |-> FALSE, cp |-> c, n |-> Len(Enc16(c)), at |-> 1] >>
    /\ Items("utf32", Enc32(c)) = << [bad |-> FALSE, cp |-> c, n |-> 1, at |-> 1] >>
    /\ Len(Enc8(c)) = (IF c < 128 THEN 1 ELSE IF c < 2048 THEN 2 ELSE IF c < 65536 THEN 3 ELSE 4)
    /\ Len(Enc16(c)) = (IF c < 65536 THEN 1 ELSE 2)
ASSUME AllScalars == \A c \in 0..MaxCP :
            (IsScalar(c) /\ (c % ScalarStep = 0 \/ c < 2304 \/ c > 1113855)) => ScalarRoundTrip(c)
=============================================================================
