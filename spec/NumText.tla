------------------------------ MODULE NumText ------------------------------
(***************************************************************************)
(* Wide-integer helpers for C12: equality of wide numbers and the C        *)
(* narrowing conversions the to_short / to_int / to_ushort / to_uint       *)
(* members apply to the strtol / strtoul result.                            *)
(* A wide number is [s |-> 1|-1, m |-> <<l0, l1, l2, l3>>] (sign-magnitude, *)
(* 16-bit limbs, little endian), as in StringOps.                          *)
(***************************************************************************)
EXTENDS Naturals, Integers, Sequences

IsZeroM(m) == m = <<0, 0, 0, 0>>
NumEq(a, b) == a.m = b.m /\ (IsZeroM(a.m) \/ a.s = b.s)

(* 2^64 - m for m # 0 (limb-wise two's complement) *)
NegM(m) ==
    LET n1 == (65536 - m[1]) % 65536                      b1 == IF m[1] = 0 THEN 0 ELSE 1
        n2 == (65536 - m[2] - b1) % 65536                 b2 == IF m[2] + b1 = 0 THEN 0 ELSE 1
        n3 == (65536 - m[3] - b2) % 65536                 b3 == IF m[3] + b2 = 0 THEN 0 ELSE 1
        n4 == (65536 - m[4] - b3) % 65536
    IN <<n1, n2, n3, n4>>
(* the 64-bit two's complement pattern of a wide number *)
Bits64(v) == IF v.s < 0 /\ ~IsZeroM(v.m) THEN NegM(v.m) ELSE v.m

(* keep the low `limbs` 16-bit limbs *)
LowLimbs(m, limbs) == [k \in 1..4 |-> IF k <= limbs THEN m[k] ELSE 0]
(* reinterpret a pattern of `limbs` limbs as a signed value *)
SignedOf(m, limbs) ==
    IF m[limbs] >= 32768
    THEN [s |-> -1, m |-> LowLimbs(NegM(m), limbs)]        \* 2^(16*limbs) - pattern
    ELSE [s |-> 1, m |-> m]

TypeLimbs(t) == CASE t = "i16" -> 1 [] t = "u16" -> 1 [] t = "i32" -> 2 [] t = "u32" -> 2 [] OTHER -> 4
TypeSigned(t) == t \in {"i16", "i32", "i64", "i64l"}
(* static_cast<type>(value) of a 64-bit value *)
Narrow(t, v) ==
    LET low == LowLimbs(Bits64(v), TypeLimbs(t)) IN
    IF TypeSigned(t) THEN SignedOf(low, TypeLimbs(t)) ELSE [s |-> 1, m |-> low]
=============================================================================
