---------------------------- MODULE MC_StringOps ----------------------------
(***************************************************************************)
(* Model-level checks of the string reference functions (C06 - C09): the   *)
(* algebraic laws the property statements assert, and the equivalence of   *)
(* the loops as written in the code (first-unit scan; sizing scan vs.      *)
(* copying scan of replace) with the declarative definitions.  The subject *)
(* string grows one byte at a time (trie walk); needles, separators and    *)
(* replacements range over all short strings of the alphabet.              *)
(***************************************************************************)
EXTENDS StringOps, TLC

CONSTANTS Alpha, MaxLen, NeedleLen

VARIABLES h
Init == h = <<>>
Next == Len(h) < MaxLen /\ \E x \in Alpha : h' = Append(h, x)
Spec == Init /\ [][Next]_h

Short == UNION {[1..k -> Alpha] : k \in 0..NeedleLen}
NonEmptyShort == Short \ {<<>>}
Num(k) == [s |-> 1, m |-> <<k, 0, 0, 0>>]
Cases == {TRUE, FALSE}

(* C07 *)
ScanIsFind == \A n \in NonEmptyShort : \A st \in 0..Len(h) :
                 (st < Len(h)) => FindScan(h, n, st) = FindFrom(h, n, st)
FindIsFirst == \A n \in NonEmptyShort, ci \in Cases : \A st \in 0..(Len(h) + 1) :
    LET r == Find(h, n, Num(st), ci) IN
    /\ r >= 0 => /\ r >= st /\ OccursAt(CaseOf(ci, h), CaseOf(ci, n), r)
                 /\ \A i \in st..(r - 1) : ~OccursAt(CaseOf(ci, h), CaseOf(ci, n), i)
    /\ r = -1 => \A i \in st..Len(h) : ~(st < Len(h) /\ OccursAt(CaseOf(ci, h), CaseOf(ci, n), i))
FindLastIsLast == \A n \in NonEmptyShort, ci \in Cases : \A mx \in 0..(Len(h) + 1) :
    LET r == FindLast(h, n, Num(mx), ci)  lim == Min2(mx, Len(h)) IN
    /\ r >= 0 => /\ r + Len(n) <= lim /\ OccursAt(CaseOf(ci, h), CaseOf(ci, n), r)
                 /\ \A i \in (r + 1)..Len(h) : ~(i + Len(n) <= lim /\ OccursAt(CaseOf(ci, h), CaseOf(ci, n), i))
    /\ r = -1 => \A i \in 0..Len(h) : ~(i + Len(n) <= lim /\ OccursAt(CaseOf(ci, h), CaseOf(ci, n), i))
PrefixSuffix == \A p \in Short, ci \in Cases :
    /\ StartsWith(h, p, ci) <=> (Len(p) <= Len(h) /\ (Len(p) = 0 \/ Find(Take(h, Len(p)), p, Zero, ci) = 0))
    /\ StartsWith(h, <<>>, ci) /\ EndsWith(h, <<>>, ci)

(* C08 *)
Reassemble == \A sep \in NonEmptyShort, ci \in Cases :
    IF Find(h, sep, Zero, ci) >= 0
    THEN /\ CaseOf(ci, BeforeFirst(h, sep, ci) \o sep \o AfterFirst(h, sep, ci)) = CaseOf(ci, h)
         /\ CaseOf(ci, BeforeLast(h, sep, ci) \o sep \o AfterLast(h, sep, ci)) = CaseOf(ci, h)
         /\ Len(BeforeFirst(h, sep, ci)) + Len(sep) + Len(AfterFirst(h, sep, ci)) = Len(h)
    ELSE /\ BeforeFirst(h, sep, ci) = h /\ AfterLast(h, sep, ci) = h
         /\ AfterFirst(h, sep, ci) = <<>> /\ BeforeLast(h, sep, ci) = <<>>
SubstrClamps == \A st \in (0 - Len(h) - 2)..(Len(h) + 2), c \in 0..(Len(h) + 2) :
    LET num == IF st < 0 THEN [s |-> -1, m |-> <<0 - st, 0, 0, 0>>] ELSE Num(st)
        r   == Substr(h, num, Num(c))
        b   == IF st < 0 THEN Max2(0, Len(h) + st) ELSE st
    IN  r = IF b > Len(h) THEN <<>> ELSE SubSeq(h, b + 1, Min2(Len(h), b + c))
LeftRight == \A k \in 0..(2 * Len(h) + 1) :
    /\ Left(h, Num(k)) = SubSeq(h, 1, Min2(k, Len(h)))
    /\ Right(h, Num(k)) = SubSeq(h, Len(h) - Min2(k, Len(h)) + 1, Len(h))
    /\ Left(h, Huge) = h /\ Right(h, Huge) = h /\ Substr(h, Zero, Huge) = h
TrimLaws == \A cs \in NonEmptyShort :
    LET t == Trim(h, cs) IN
    /\ (t # <<>> => ~InSet(t[1], cs) /\ ~InSet(t[Len(t)], cs))
    /\ \E i \in 0..Len(h) : \E j \in 0..(Len(h) - i) :
          /\ h = SubSeq(h, 1, i) \o t \o SubSeq(h, Len(h) - j + 1, Len(h))
          /\ \A k \in 1..i : InSet(h[k], cs)
          /\ \A k \in (Len(h) - j + 1)..Len(h) : InSet(h[k], cs)
    /\ TrimLeft(TrimRight(h, cs), cs) = t

(* C09 *)
SplitJoin == \A sep \in Short, ci \in Cases : \A mx \in 0..(Len(h) + 1) :
    LET ps == Split(h, sep, Num(mx), ci) IN
    /\ Len(ps) <= mx + 1 /\ Len(ps) >= 1
    /\ (~ci => Join(ps, sep) = h)
    /\ (Len(sep) = 0 => ps = <<h>>)
    /\ \A k \in 1..(Len(ps) - 1) : Find(ps[k], sep, Zero, ci) = -1
    /\ (Len(ps) <= mx /\ Len(sep) > 0 => Find(ps[Len(ps)], sep, Zero, ci) = -1)
SplitAll == \A sep \in NonEmptyShort : Split(h, sep, Huge, FALSE) = Split(h, sep, Num(Len(h) + 1), FALSE)
TokenizeLaws == \A ds \in NonEmptyShort :
    LET ts == Tokenize(h, ds) IN
    /\ \A k \in 1..Len(ts) : ts[k] # <<>> /\ \A j \in 1..Len(ts[k]) : ~InSet(ts[k][j], ds)
    /\ Join(ts, <<>>) = SelectSeq(h, LAMBDA b : ~InSet(b, ds))
ReplaceLaws == \A f \in Short, t \in Short, ci \in Cases :
    LET r == Replace(h, f, t, ci) IN
    /\ Len(r) = ReplaceSized(h, f, t, ci)               \* sizing scan = copying scan
    /\ (Len(f) = 0 => r = h)
    /\ (Find(h, f, Zero, ci) = -1 => r = h)
    /\ (~ci /\ Len(f) > 0 => Join(Split(h, f, Huge, FALSE), t) = r)   \* replace = split, then join
=============================================================================
