---------------------------- MODULE TraceStream ----------------------------
(***************************************************************************)
(* Trace validation of recorded string_stream executions (C16; the stream  *)
(* part of C18 and C19).  Every line is one public operation on real       *)
(* ST::string_stream objects with the projection of ALL live streams after *)
(* it.  A step is accepted iff the logged post-state is the result Stream  *)
(* defines for that operation from the current state - the bytes added are *)
(* computed here from the logged ARGUMENT (text, units to transcode with   *)
(* the Unicode module, integer to print with Format!IntText) - and the     *)
(* observation satisfies the ownership invariants; otherwise the step is   *)
(* rejected and the rest of that execution is skipped.                     *)
(***************************************************************************)
EXTENDS Stream, Format, TraceLib, Json, IOUtils

TraceLog == ndJsonDeserialize(IOEnv.TRACE)
OutFile  == IOEnv.OUT
NSlots   == 4
BigText  == 64      \* contents longer than this are transcoded only when they are pure ASCII

VARIABLES l, pool, plat, skipping, hadFault, book, nsteps, nfault, nconv, done
vars == <<l, pool, plat, skipping, hadFault, book, nsteps, nfault, nconv, done>>

AllDead == [s \in 1..NSlots |-> Dead]
NoPlat == [wchar_bits |-> 0, dflt |-> "none"]
Init == /\ l = 1 /\ pool = AllDead /\ plat = NoPlat /\ skipping = TRUE /\ hadFault = FALSE
        /\ book = Book0 /\ nsteps = 0 /\ nfault = 0 /\ nconv = 0 /\ done = FALSE

Ev == TraceLog[l]
ToSet(q) == {q[k] : k \in 1..Len(q)}
PostPool(ev) == [s \in 1..NSlots |->
                   IF ev.post[s].st = "dead" THEN Dead ELSE Live(ev.post[s].v, ev.post[s].stor)]

ObsOk(ev) ==
    LET post == PostPool(ev) IN
    /\ \A s \in 1..NSlots : ev.post[s].st = "live" =>
          /\ ev.post[s].bad = ""
          /\ Canonical(ev.post[s].v)
          /\ ev.post[s].n = CLen(ev.post[s].v)
    /\ Exclusive(post)
    /\ ToSet(ev.live) = Owned(post)
    /\ ev.badfree = 0

Resolve(e) == IF e = "wchar" THEN (IF plat.wchar_bits = 32 THEN "utf32" ELSE "utf16") ELSE e
RECURSIVE UpToNul(_, _)
UpToNul(u, z) == IF u = <<>> \/ Head(u) = z THEN <<>> ELSE <<Head(u)>> \o UpToNul(Tail(u), z)
WideUnits(ev) == IF ev.cstr = 1 THEN UpToNul(ev.units, IF Resolve(ev.src) = "utf32" THEN <<0, 0>> ELSE 0) ELSE ev.units

(* ASCII text transcodes to itself (checked for the Unicode module by MC_Unicode); the *)
(* shortcut keeps long pattern insertions through the wide overloads cheap             *)
UnitVal(src, x) == IF Resolve(src) = "utf32" THEN (IF x[1] = 0 THEN x[2] ELSE 65536) ELSE x
WideAscii(ev) == \A k \in 1..Len(WideUnits(ev)) : UnitVal(ev.src, WideUnits(ev)[k]) < 128
WideConv(ev) == IF WideAscii(ev)
                THEN [res |-> "ok", out |-> [k \in 1..Len(WideUnits(ev)) |-> UnitVal(ev.src, WideUnits(ev)[k])]]
                ELSE Conv(Resolve(ev.src), "utf8", plat.dflt, FALSE, WideUnits(ev))
Adding == {"append", "appendchar", "ins"}
(* the bytes a successful insertion adds, from the logged argument *)
DataOf(ev) ==
    CASE ev.kind = "bytes" -> ev.arg
      [] ev.kind = "fill"  -> FillOf(ev.ch, ev.len)
      [] ev.kind = "int"   -> LET t == CHOOSE t \in {IntText([s |-> IF ev.neg = 1 THEN -1 ELSE 1, m |-> ev.m], 10, FALSE)} : TRUE
                              IN FromBytes(t)
      [] ev.kind = "self"  -> pool[ev.a].val
      [] ev.kind = "wide"  -> LET t == CHOOSE t \in {WideConv(ev).out} : TRUE
                              IN FromBytes(t)

WideThrows(ev) == ev.kind = "wide" /\ WideConv(ev).res = "unicode_error"
WideUnspecified(ev) == ev.kind = "wide" /\ plat.dflt = "assume" /\ AnyBad(Items(Resolve(ev.src), WideUnits(ev)))

(* to_string(): one entry per requested mode *)
TsOk(val, t) ==
    LET mode == IF t.m = "dflt" THEN plat.dflt ELSE t.m IN
    IF t.m = "latin1"
    THEN /\ t.res = "ok" /\ t.z = 0 /\ t.own = 1
         /\ IF AllAscii(val) THEN t.out = val
            ELSE CLen(val) > BigText \/ t.out = FromBytes(Conv("latin1", "utf8", "check", FALSE, ToBytes(val)).out)
    ELSE IF AllAscii(val) THEN t.res = "ok" /\ t.out = val /\ t.z = 0 /\ t.own = 1
    ELSE \/ CLen(val) > BigText /\ t.res \in {"ok", "unicode_error"}
         \/ /\ ConvAllowed("utf8", "utf8", mode, FALSE, ToBytes(val), t.res, IF t.res = "ok" THEN ToBytes(t.out) ELSE <<>>)
            /\ t.res = "ok" => t.z = 0 /\ t.own = 1

StepOk(ev, post) ==
    CASE ev.e = "construct" -> ConstructG(pool, ev.a) /\ IsLive(post, ev.a)
                               /\ post = Upd(pool, ev.a, Live(<<>>, post[ev.a].stor))
      [] ev.e \in Adding ->
            /\ AppendG(pool, ev.a) /\ IsLive(post, ev.a)
            /\ IF WideUnspecified(ev)
               THEN /\ OnlyTouched(pool, post, {ev.a})
                    /\ CLen(post[ev.a].val) >= CLen(pool[ev.a].val)
                    /\ CPrefix(post[ev.a].val, CLen(pool[ev.a].val)) = pool[ev.a].val
               ELSE /\ ~WideThrows(ev)
                    \* (the bounded quantifier makes TLC evaluate the data once, not once per use)
                    /\ \E d \in {DataOf(ev)} : post = AppendR(pool, ev.a, d, post[ev.a].stor)
      [] ev.e = "truncate" -> /\ TruncateG(pool, ev.a) /\ IsLive(post, ev.a)
                              /\ post = TruncateR(pool, ev.a, IF ev.len < 0 THEN 0 ELSE ev.len, post[ev.a].stor)
      [] ev.e = "erase" -> /\ TruncateG(pool, ev.a) /\ IsLive(post, ev.a)
                           /\ post = EraseR(pool, ev.a, ev.len, post[ev.a].stor)
      [] ev.e = "moveconstruct" -> /\ MoveConstructG(pool, ev.a, ev.b) /\ IsLive(post, ev.a) /\ IsLive(post, ev.b)
                                   /\ post = MoveR(pool, ev.a, ev.b, post[ev.a].stor, post[ev.b].stor)
      [] ev.e = "moveassign" -> /\ MoveAssignG(pool, ev.a, ev.b) /\ IsLive(post, ev.a) /\ IsLive(post, ev.b)
                                /\ post = MoveR(pool, ev.a, ev.b, post[ev.a].stor, post[ev.b].stor)
      [] ev.e = "tostring" -> /\ IsLive(pool, ev.a) /\ post = pool
                              /\ \A k \in 1..Len(ev.ts) : TsOk(pool[ev.a].val, ev.ts[k])
      [] ev.e = "destroy" -> DestroyG(pool, ev.a) /\ post = DestroyR(pool, ev.a)
      [] OTHER -> FALSE

(* malformed wide text: ST::unicode_error, and the stream is untouched     *)
ThrowOk(ev, post) ==
    /\ ev.e \in Adding /\ ev.exc = "unicode_error" /\ WideThrows(ev) /\ post = ThrowR(pool)

(* an injected allocation failure: bad_alloc reaches the caller; the       *)
(* stream keeps its content (or is empty); nothing else moves              *)
FaultOk(ev, post) ==
    /\ ev.fault = 1 /\ ev.exc = "bad_alloc" /\ ev.e \in Adding \cup {"tostring"}
    /\ OnlyTouched(pool, post, {ev.a})
    /\ IsLive(post, ev.a)
    /\ post[ev.a].val = pool[ev.a].val \/ post[ev.a].val = <<>>

Accept(ev) ==
    LET post == PostPool(ev) IN
    /\ ObsOk(ev)
    /\ \/ ev.exc = "none" /\ StepOk(ev, post)
       \/ ThrowOk(ev, post)
       \/ FaultOk(ev, post)

IsFloatIns(ev) == "flt" \in DOMAIN ev
PropOf(ev) == IF "fault" \in DOMAIN ev /\ ev.fault = 1 THEN <<"C19">>
              ELSE IF "exc" \in DOMAIN ev /\ ev.exc = "unicode_error" THEN <<"C16", "C18">>
              ELSE IF "kind" \in DOMAIN ev /\ ev.kind = "wide" /\ WideThrows(ev) THEN <<"C16", "C18">>
              ELSE IF IsFloatIns(ev) THEN <<"C16", "C13">>      \* (string_stream insertion of a float is the %g rendering: C13)
              ELSE <<"C16">>
Rej(ev, what) == [line |-> l, i |-> ev.i, k |-> 0, what |-> what, cls |-> ev.e, props |-> PropOf(ev), kf |-> "none"]

OpNames == Adding \cup {"construct", "truncate", "erase", "moveconstruct", "moveassign", "tostring", "destroy"}

TPlatform == /\ Ev.e = "Platform" /\ plat' = [wchar_bits |-> Ev.wchar_bits, dflt |-> Ev.dflt]
             /\ UNCHANGED <<pool, skipping, hadFault, book, nsteps, nfault, nconv>>
TReset == /\ Ev.e = "reset"
          /\ pool' = AllDead /\ skipping' = FALSE /\ hadFault' = FALSE
          /\ UNCHANGED <<plat, book, nsteps, nfault, nconv>>
TOp ==
    /\ Ev.e \in OpNames
    /\ IF skipping THEN UNCHANGED <<pool, skipping, book, nsteps, nfault, nconv, hadFault>>
       ELSE /\ nsteps' = nsteps + 1
            /\ nfault' = nfault + (IF Ev.exc = "bad_alloc" THEN 1 ELSE 0)
            /\ nconv' = nconv + (IF Ev.e \in Adding /\ Ev.kind \in {"wide", "int"} THEN 1 ELSE 0)
            /\ hadFault' = (hadFault \/ Ev.fault = 1)
            /\ IF Accept(Ev)
               THEN pool' = PostPool(Ev) /\ UNCHANGED <<skipping, book>>
               ELSE /\ book' = BookAdd(book, << Rej(Ev, "step") >>)
                    /\ skipping' = TRUE /\ UNCHANGED pool
    /\ UNCHANGED plat
TEnd ==
    /\ Ev.e = "end"
    /\ IF skipping THEN UNCHANGED book
       ELSE IF ToSet(Ev.live) = {} /\ Ev.badfree = 0 THEN UNCHANGED book
       ELSE book' = BookAdd(book, << [line |-> l, i |-> Ev.i, k |-> 0, what |-> "leak at end",
                                      props |-> IF hadFault THEN <<"C19">> ELSE <<"C16">>, kf |-> "none"] >>)
    /\ pool' = AllDead /\ skipping' = TRUE
    /\ UNCHANGED <<plat, hadFault, nsteps, nfault, nconv>>
TAbnormal ==
    /\ Ev.e = "Abnormal"
    /\ book' = BookAdd(book, << [line |-> l, i |-> Ev.i, k |-> 0, what |-> "abnormal",
                                 props |-> IF "fault" \in DOMAIN Ev.during /\ Ev.during.fault = 1
                                           THEN <<"C19">> ELSE IF IsFloatIns(Ev.during) THEN <<"C16", "C13">> ELSE <<"C16">>,
                                 kf |-> "none"] >>)
    /\ skipping' = TRUE
    /\ UNCHANGED <<pool, plat, hadFault, nsteps, nfault, nconv>>

TStep == /\ ~done /\ l <= Len(TraceLog)
         /\ (TPlatform \/ TReset \/ TOp \/ TEnd \/ TAbnormal)
         /\ l' = l + 1 /\ done' = FALSE
TFinish ==
    /\ ~done /\ l = Len(TraceLog) + 1
    /\ ndJsonSerialize(OutFile, << [lines |-> Len(TraceLog), nrej |-> book.nrej, kfn |-> book.kfn,
                                    n_decided |-> nsteps, n_fault_steps |-> nfault, n_transcoded_or_printed |-> nconv,
                                    rej |-> book.rej] >>)
    /\ done' = TRUE
    /\ UNCHANGED <<l, pool, plat, skipping, hadFault, book, nsteps, nfault, nconv>>

Next == TStep \/ TFinish
Spec == Init /\ [][Next]_vars
Accepted == TLCGet("stats").diameter = Len(TraceLog) + 2
=============================================================================
