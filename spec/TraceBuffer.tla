---------------------------- MODULE TraceBuffer ----------------------------
(***************************************************************************)
(* Trace validation of recorded buffer-pool executions (C05, C19).         *)
(* Every line is one public operation on real ST::buffer<T> objects with   *)
(* the projection of ALL live objects after it.  A step is accepted iff    *)
(* the logged post-state is the result BufferPool defines for that         *)
(* operation from the current state (open choices - block ids, moved-from  *)
(* value - are read from the log) and the observation satisfies the        *)
(* representation invariants; otherwise it is rejected and the rest of     *)
(* that execution is skipped (up to the next reset).                       *)
(***************************************************************************)
EXTENDS BufferPool, Known, TraceLib, Json, IOUtils

TraceLog == ndJsonDeserialize(IOEnv.TRACE)
OutFile  == IOEnv.OUT
NSlots   == 4

VARIABLES l, buf, lim, skipping, hadFault, book, nsteps, nfault, done
vars == <<l, buf, lim, skipping, hadFault, book, nsteps, nfault, done>>

AllDead == [s \in 1..NSlots |-> Dead]
Init == /\ l = 1 /\ buf = AllDead /\ lim = 0 /\ skipping = TRUE /\ hadFault = FALSE
        /\ book = Book0 /\ nsteps = 0 /\ nfault = 0 /\ done = FALSE

Ev == TraceLog[l]

PostBuf(ev) == [s \in 1..NSlots |->
                  IF ev.post[s].st = "dead" THEN Dead ELSE Live(ev.post[s].u, ev.post[s].stor)]
ToSet(q) == {q[k] : k \in 1..Len(q)}

(* what must hold of every observation: readable storage of the right kind, *)
(* size() = units held, NUL after the last unit, exclusive ownership, no    *)
(* leaked and no released-but-referenced block, no bad free                 *)
ObsOk(ev) ==
    LET post == PostBuf(ev) IN
    /\ \A s \in 1..NSlots : ev.post[s].st = "live" =>
          /\ ev.post[s].bad = ""
          /\ ev.post[s].n = Len(ev.post[s].u)
          /\ ev.post[s].z = 0
    /\ Valid(lim, post)
    /\ ToSet(ev.live) = Owned(post)
    /\ ev.badfree = 0

Normal(ev) == ev.exc = "none"

StepOk(ev, post) ==
    CASE ev.e \in {"construct", "constructfill"} ->
            /\ ConstructG(buf, ev.a) /\ IsLive(post, ev.a)
            /\ post = ConstructR(lim, buf, ev.a, ev.arg, post[ev.a].stor)
      [] ev.e = "copyconstruct" ->
            /\ CopyConstructG(buf, ev.a, ev.b) /\ IsLive(post, ev.a)
            /\ post = CopyConstructR(lim, buf, ev.a, ev.b, post[ev.a].stor)
      [] ev.e = "moveconstruct" ->
            /\ MoveConstructG(buf, ev.a, ev.b) /\ IsLive(post, ev.a) /\ IsLive(post, ev.b)
            /\ post = MoveConstructR(lim, buf, ev.a, ev.b, post[ev.b].val, post[ev.a].stor, post[ev.b].stor)
      [] ev.e = "copyassign" ->
            /\ CopyAssignG(buf, ev.a, ev.b) /\ IsLive(post, ev.a)
            /\ post = CopyAssignR(lim, buf, ev.a, ev.b, post[ev.a].stor)
      [] ev.e = "moveassign" ->
            /\ MoveAssignG(buf, ev.a, ev.b) /\ IsLive(post, ev.a) /\ IsLive(post, ev.b)
            /\ post = MoveAssignR(lim, buf, ev.a, ev.b, post[ev.b].val, post[ev.a].stor, post[ev.b].stor)
      [] ev.e = "allocate" ->            \* content unspecified, length is not
            /\ AllocateG(buf, ev.a) /\ IsLive(post, ev.a) /\ Len(post[ev.a].val) = ev.len
            /\ post = AllocateR(lim, buf, ev.a, post[ev.a].val, post[ev.a].stor)
      [] ev.e = "allocatefill" ->
            /\ AllocateG(buf, ev.a) /\ IsLive(post, ev.a)
            /\ post = AllocateR(lim, buf, ev.a, ev.arg, post[ev.a].stor)
      [] ev.e = "clear" -> ClearG(buf, ev.a) /\ post = ClearR(buf, ev.a)
      [] ev.e = "observe" ->           \* comparisons read values: equal iff the units are equal, and nothing changes
            /\ IsLive(buf, ev.a) /\ IsLive(buf, ev.b) /\ post = buf
            /\ LET same == buf[ev.a].val = buf[ev.b].val IN
               /\ ev.obs.eq = (IF same THEN 1 ELSE 0) /\ ev.obs.ne = (IF same THEN 0 ELSE 1)
               /\ (ev.obs.sign = 0) <=> same
               /\ ev.obs.eqe = (IF buf[ev.a].val = <<>> THEN 1 ELSE 0)
               /\ ev.obs.eqc = 1
      [] ev.e = "destroy" -> DestroyG(buf, ev.a) /\ post = DestroyR(buf, ev.a)
      [] OTHER -> FALSE

(* an injected allocation failure: bad_alloc reaches the caller, the target *)
(* keeps its old value or becomes empty, everything else is untouched       *)
FaultOk(ev, post) ==
    /\ ev.fault = 1 /\ ev.exc = "bad_alloc"
    /\ ev.e \in {"construct", "constructfill", "copyconstruct", "copyassign", "allocate", "allocatefill"}
    /\ FaultTargetOk(lim, buf, post, ev.a)

Accept(ev) ==
    LET post == PostBuf(ev) IN
    /\ ObsOk(ev)
    /\ \/ Normal(ev) /\ StepOk(ev, post)
       \/ FaultOk(ev, post)

PropOf(ev) == IF "fault" \in DOMAIN ev /\ ev.fault = 1 THEN <<"C19">>
              ELSE IF ev.e = "observe" THEN <<"C06">> ELSE <<"C05">>
Rej(ev, what) == [line |-> l, i |-> ev.i, k |-> 0, what |-> what, cls |-> ev.e, props |-> PropOf(ev), kf |-> "none"]

OpNames == {"construct", "constructfill", "copyconstruct", "moveconstruct", "copyassign", "moveassign",
            "allocate", "allocatefill", "clear", "destroy", "observe"}

TPlatform == Ev.e = "Platform" /\ UNCHANGED <<buf, lim, skipping, hadFault, book, nsteps, nfault>>

TReset ==
    /\ Ev.e = "reset"
    /\ buf' = AllDead /\ lim' = Ev.lim /\ skipping' = FALSE /\ hadFault' = FALSE
    /\ UNCHANGED <<book, nsteps, nfault>>

TOp ==
    /\ Ev.e \in OpNames
    /\ IF skipping THEN UNCHANGED <<buf, skipping, book, nsteps, nfault, hadFault>>
       ELSE /\ nsteps' = nsteps + 1
            /\ nfault' = nfault + (IF Ev.exc = "bad_alloc" THEN 1 ELSE 0)
            /\ hadFault' = (hadFault \/ Ev.fault = 1)
            /\ IF Accept(Ev)
               THEN buf' = PostBuf(Ev) /\ UNCHANGED <<skipping, book>>
               ELSE /\ book' = BookAdd(book, << Rej(Ev, "step") >>)
                    /\ skipping' = TRUE /\ UNCHANGED buf
    /\ UNCHANGED lim

(* end of an execution: everything destroyed, nothing may still be live    *)
TEnd ==
    /\ Ev.e = "end"
    /\ IF skipping THEN UNCHANGED book
       ELSE IF ToSet(Ev.live) = {} /\ Ev.badfree = 0 THEN UNCHANGED book
       ELSE book' = BookAdd(book, << [line |-> l, i |-> Ev.i, k |-> 0, what |-> "leak at end",
                                      props |-> IF hadFault THEN <<"C19">> ELSE <<"C05">>, kf |-> "none"] >>)
    /\ buf' = AllDead /\ skipping' = TRUE
    /\ UNCHANGED <<lim, hadFault, nsteps, nfault>>

(* abnormal termination is never an action of the specification            *)
TAbnormal ==
    /\ Ev.e = "Abnormal"
    /\ book' = BookAdd(book, << [line |-> l, i |-> Ev.i, k |-> 0, what |-> "abnormal",
                                 props |-> IF "fault" \in DOMAIN Ev.during /\ Ev.during.fault = 1
                                           THEN <<"C19">> ELSE <<"C05">>,
                                 kf |-> "none"] >>)
    /\ skipping' = TRUE
    /\ UNCHANGED <<buf, lim, hadFault, nsteps, nfault>>

TStep == /\ ~done /\ l <= Len(TraceLog)
         /\ (TPlatform \/ TReset \/ TOp \/ TEnd \/ TAbnormal)
         /\ l' = l + 1 /\ done' = FALSE

TFinish ==
    /\ ~done /\ l = Len(TraceLog) + 1
    /\ ndJsonSerialize(OutFile, << [lines |-> Len(TraceLog), nrej |-> book.nrej, kfn |-> book.kfn,
                                    n_decided |-> nsteps, n_fault_steps |-> nfault, rej |-> book.rej] >>)
    /\ done' = TRUE
    /\ UNCHANGED <<l, buf, lim, skipping, hadFault, book, nsteps, nfault>>

Next == TStep \/ TFinish
Spec == Init /\ [][Next]_vars
Accepted == TLCGet("stats").diameter = Len(TraceLog) + 2
=============================================================================
