SPECIFICATION Spec
CONSTANTS
  Alpha = {0, 65, 97, 98}
  MaxLen = 6
  NeedleLen = 3
INVARIANTS ScanIsFind FindIsFirst FindLastIsLast PrefixSuffix Reassemble SubstrClamps LeftRight TrimLaws SplitJoin SplitAll TokenizeLaws ReplaceLaws
CHECK_DEADLOCK FALSE
