SPECIFICATION Spec
CONSTANTS
  Slots = {1, 2}
  STACK = 3
  Tags = {"A", "B", "C"}
  MaxLen = 9
  AsIs = TRUE
  WithFaults = TRUE
CONSTRAINT Bound
VIEW View
INVARIANTS ContentIsConcat Exclusive NoLeak ValidObject Terminates
CHECK_DEADLOCK FALSE
