SPECIFICATION Spec
CONSTANTS
  ByteAlpha = {0, 1, 63, 64, 127, 128, 170, 255}
  MaxBytes = 5
  TextAlpha = {65, 103, 47, 61, 33, 0, 128}
  MaxText = 8
INVARIANTS RoundTrip ImplAcceptsExactlyValid ValidImpliesSize
CHECK_DEADLOCK FALSE
