---------------------------- MODULE TraceFormat ----------------------------
(***************************************************************************)
(* Trace validation of formatting and numeric text (C10 - C13, C17).       *)
(***************************************************************************)
EXTENDS Format, NumText, KnownFmt, TraceLib, Json, IOUtils, TLC

TraceLog == ndJsonDeserialize(IOEnv.TRACE)
OutFile  == IOEnv.OUT

VARIABLES l, plat, book, ndec, done
vars == <<l, plat, book, ndec, done>>
NoPlat == [dflt |-> "none", wchar_bits |-> 0]
Init == l = 1 /\ plat = NoPlat /\ book = Book0 /\ ndec = 0 /\ done = FALSE
Ev == TraceLog[l]

WcharEnc == IF plat.wchar_bits = 32 THEN "utf32" ELSE "utf16"
Documented == {"ok", "bad_format", "out_of_range", "invalid_argument", "unicode_error", "assert"}

(* ---- fmt: the model outcome of one sink ---------------------------------*)
SinkMode(k) == CASE k = "format" -> plat.dflt [] k = "_stfmt" -> plat.dflt [] k = "_stfmt_twice" -> plat.dflt [] k = "format_check" -> "check"
                 [] k = "format_substitute" -> "substitute" [] k = "format_assume" -> "assume" [] OTHER -> "none"
(* (the _w sinks are streams with a pending width and fill: writef must not be affected by them) *)
IsWide(k) == k \in {"writef_wostream", "writef_wostream_w", "writef_u16ostream", "writef_u32ostream"}
WideEnc(k) == CASE k \in {"writef_wostream", "writef_wostream_w"} -> WcharEnc [] k = "writef_u16ostream" -> "utf16" [] OTHER -> "utf32"

(* is the recorded result s of sink k what the model result r of the call requires? *)
SinkOk(k, s, r) ==
    IF SinkMode(k) # "none" THEN          \* the string sinks: concatenate, then validate as requested
        IF r.res # "ok" THEN s.res = r.res
        ELSE ConvAllowed("utf8", "utf8", SinkMode(k), TRUE, Bytes(r.chunks), s.res, s.out)
    ELSE IF k = "format_latin_1" THEN
        IF r.res # "ok" THEN s.res = r.res ELSE s.res = "ok" /\ s.out = Latin1Sink(r.chunks)
    ELSE IF k \in {"printf_FILE", "writef_ostream", "writef_ostream_w"} THEN
        IF r.res # "ok" THEN s.res = r.res ELSE s.res = "ok" /\ s.out = ByteSink(r.chunks)
    ELSE IF IsWide(k) THEN
        \* a wide sink may meet text it cannot transcode before the call's own error
        IF r.res # "ok" THEN s.res \in {r.res, "unicode_error"}
        ELSE LET w == WideSink(r.chunks, WideEnc(k)) IN
             IF w.res = "ok" THEN
                 /\ s.res = "ok"
                 \* a char16_t stream cannot carry the unit FFFF (it is the eof value of its traits)
                 /\ ((WideEnc(k) = "utf16" /\ \E j \in 1..Len(w.out) : w.out[j] = 65535) \/ s.out = w.out)
             ELSE s.res \in {"ok", "unicode_error"}      \* not a call ST::format accepts
    ELSE FALSE

FmtModel(ev) == IF ev.null = 1 THEN [res |-> "invalid_argument", chunks |-> <<>>, maxread |-> 0]
                ELSE Format(ev.f, ev.args)

SinkByName(ev, name) == LET S == {k \in 1..Len(ev.sinks) : ev.sinks[k].k = name} IN
                        IF S = {} THEN [k |-> name, res |-> "absent", out |-> <<>>] ELSE ev.sinks[CHOOSE k \in S : TRUE]

(* Which statements a wrong sink contradicts.                               *)
FmtProps(ev, k, s, r) ==
    LET fs == SinkByName(ev, "format")
        formatRight == SinkOk("format", fs, r)
    IN IF k = "format"
       THEN IF s.res \notin Documented THEN <<"C10">>
            ELSE IF r.res # "ok" THEN <<"C10">>                       \* must have thrown r.res
            ELSE IF s.res \notin {"ok", "unicode_error"} THEN <<"C10", "C11">>
            \* the string sink is wrong while a byte sink of the same call is right: the sinks disagree (C17 as well)
            ELSE IF \E j \in 1..Len(ev.sinks) : ev.sinks[j].k \in {"printf_FILE", "writef_ostream"} /\ SinkOk(ev.sinks[j].k, ev.sinks[j], r)
                 THEN <<"C11", "C17">>
            ELSE <<"C11">>
       \* an undocumented exception out of another sink: not total (C10) - and, when ST::format itself accepted the call,
       \* a sink that did not emit the same bytes (C17)
       ELSE IF s.res \notin Documented THEN (IF formatRight /\ r.res = "ok" THEN <<"C10", "C17">> ELSE <<"C10">>)
       ELSE IF ~formatRight THEN <<>>                                 \* reported at the format sink
       \* (the string-returning entry points are format calls themselves: their rendering is C11's subject as well)
       ELSE IF r.res = "ok" THEN (IF SinkMode(k) # "none" THEN <<"C11", "C17">> ELSE <<"C17">>) ELSE <<"C10">>

FmtRecs(ev) ==
    LET r == FmtModel(ev)
        bad == {k \in 1..Len(ev.sinks) : ~SinkOk(ev.sinks[k].k, ev.sinks[k], r)}
        bs == SetToSeq(bad)
    IN IF r.res = "unmodelled"
       THEN << [line |-> l, i |-> ev.i, k |-> 0, what |-> "unmodelled", props |-> <<"HARNESS">>, kf |-> "none"] >>
       ELSE [j \in 1..Len(bs) |->
               [line |-> l, i |-> ev.i, k |-> bs[j], what |-> "sink", cls |-> ev.sinks[bs[j]].k \o "/" \o ev.sinks[bs[j]].res,
                props |-> FmtProps(ev, ev.sinks[bs[j]].k, ev.sinks[bs[j]], r),
                kf |-> KF_Fmt(ev, ev.sinks[bs[j]], r)]]

(* ---- streamio -----------------------------------------------------------*)
StreamIoOk(ev, s) ==
    LET byname(n) == SinkByName(ev, n) IN
    /\ s.res = "ok"
    /\ CASE s.k = "ins_char" -> s.out = ev.s
         [] s.k = "ins_wchar" -> s.out = Conv("utf8", WcharEnc, "assume", TRUE, ev.s).out
         [] s.k = "ins_char16" -> s.out = Conv("utf8", "utf16", "assume", TRUE, ev.s).out
         [] s.k = "ins_char32" -> s.out = Conv("utf8", "utf32", "assume", TRUE, ev.s).out
         [] s.k = "ext_char" -> s.out = byname("ext_char_std").out
         \* the target held the earlier token "old".  When the extraction stores something - a token, or the empty
         \* string after the stream's sentry succeeded (noskipws on non-empty input) - ST::string must hold the same;
         \* what a FAILED extraction leaves in the target is not part of the statement
         [] s.k = "ext_char_reuse" -> byname("ext_char_reuse_std").out = <<111, 108, 100>> \/ s.out = byname("ext_char_reuse_std").out
         [] s.k = "ext_char_nows" -> ev.s = <<>> \/ s.out = byname("ext_char_nows_std").out
         [] s.k = "ext_wchar" -> s.out = Conv(WcharEnc, "utf8", plat.dflt, TRUE, byname("ext_wchar_std").out).out
         [] OTHER -> TRUE
StreamIoRecs(ev) ==
    LET bad == {k \in 1..Len(ev.sinks) : ~StreamIoOk(ev, ev.sinks[k])}
        bs == SetToSeq(bad)
    IN [j \in 1..Len(bs) |-> [line |-> l, i |-> ev.i, k |-> bs[j], what |-> "sink", cls |-> ev.sinks[bs[j]].k,
                              props |-> <<"C17">>, kf |-> "none"]]

(* ---- int ------------------------------------------------------------------*)
IntOk(ev, s) == s.res = "ok" /\ s.out = IntText(ev.v, ev.base, ev.upper = 1)
IntBackOk(ev) == ev.back.ok = 1 /\ ev.back.full = 1 /\ NumEq(ev.back.v, ev.v)
IntRecs(ev) ==
    LET bad == {k \in 1..Len(ev.sinks) : ~IntOk(ev, ev.sinks[k])}
        bs == SetToSeq(bad)
    IN [j \in 1..Len(bs) |-> [line |-> l, i |-> ev.i, k |-> bs[j], what |-> "sink", cls |-> "int/" \o ev.sinks[bs[j]].k,
                              props |-> <<"C12">>, kf |-> "none"]]
       \o (IF IntBackOk(ev) THEN <<>> ELSE << [line |-> l, i |-> ev.i, k |-> 0, what |-> "roundtrip", cls |-> "int/back",
                                               props |-> <<"C12">>, kf |-> "none"] >>)

(* ---- parse: the C library is the reference by definition --------------*)
ParseOneOk(size, r) ==
    /\ NumEq(r.v, Narrow(r.t, r.libc))
    /\ NumEq(r.plain, Narrow(r.t, r.libc))
    /\ IF size = 0 THEN r.ok = 0 /\ r.full = 1
       ELSE r.ok = (IF r.consumed > 0 THEN 1 ELSE 0) /\ r.full = (IF r.consumed = size THEN 1 ELSE 0)
ParseRecs(ev) ==
    LET bad == {k \in 1..Len(ev.r) : ~ParseOneOk(ev.size, ev.r[k])}
        bs == SetToSeq(bad)
    IN [j \in 1..Len(bs) |-> [line |-> l, i |-> ev.i, k |-> bs[j], what |-> "parse", cls |-> ev.r[bs[j]].t,
                              props |-> <<"C12">>, kf |-> "none"]]

(* ---- float ----------------------------------------------------------------*)
PrintfOf(sp) == <<37>> \o (IF sp.plus THEN <<43>> ELSE <<>>)
                \o (IF sp.prec >= 0 THEN <<46>> \o Digits(<<sp.prec, 0, 0, 0>>, 10, FALSE) ELSE <<>>)
                \o << CASE sp.float = "exp" -> 101 [] sp.float = "EXP" -> 69 [] sp.float = "fixed" -> 102 [] OTHER -> 103 >>
PadFloat(sp, text) ==
    IF sp.minlen > Len(text)
    THEN IF sp.align = "left" THEN text \o [j \in 1..(sp.minlen - Len(text)) |-> PadChar(sp)]
         ELSE [j \in 1..(sp.minlen - Len(text)) |-> PadChar(sp)] \o text
    ELSE text
FloatSinkOk(ev, s, sp) ==
    /\ s.res = "ok"
    /\ IF s.k = "format" THEN s.out = PadFloat(sp, ev.libc) ELSE s.out = ev.libc
FloatRecs(ev) ==
    LET pf == ParseField(ev.f, 1)
        harness == pf.res # "ok" \/ PrintfOf(pf.spec) # ev.printf
        bad == {k \in 1..Len(ev.sinks) : ~FloatSinkOk(ev, ev.sinks[k], pf.spec)}
        bs == SetToSeq(bad)
    IN IF harness THEN << [line |-> l, i |-> ev.i, k |-> 0, what |-> "printf spec", props |-> <<"HARNESS">>, kf |-> "none"] >>
       ELSE [j \in 1..Len(bs) |-> [line |-> l, i |-> ev.i, k |-> bs[j], what |-> "sink", cls |-> "float/" \o ev.sinks[bs[j]].k \o "/" \o ev.sinks[bs[j]].res,
                                   props |-> IF ev.sinks[bs[j]].res \notin {"ok", "bad_format", "out_of_range", "invalid_argument", "unicode_error"}
                                             THEN <<"C10", "C13">> ELSE <<"C13">>,      \* an abort or a foreign exception is also C10's
                                   kf |-> KF_Float(ev, ev.sinks[bs[j]])]]
ParseFOneOk(size, r) ==
    /\ r.v = r.libc /\ r.plain = r.libc
    /\ IF size = 0 THEN r.ok = 0 /\ r.full = 1
       ELSE r.ok = (IF r.consumed > 0 THEN 1 ELSE 0) /\ r.full = (IF r.consumed = size THEN 1 ELSE 0)
ParseFRecs(ev) ==
    (IF ParseFOneOk(ev.size, ev.d) THEN <<>> ELSE << [line |-> l, i |-> ev.i, k |-> 1, what |-> "parsef", cls |-> "double", props |-> <<"C13">>, kf |-> "none"] >>)
    \o (IF ParseFOneOk(ev.size, ev.f) THEN <<>> ELSE << [line |-> l, i |-> ev.i, k |-> 2, what |-> "parsef", cls |-> "float", props |-> <<"C13">>, kf |-> "none"] >>)

AbnormalProps(ev) ==
    IF ~("e" \in DOMAIN ev.during) THEN <<"HARNESS">>
    ELSE CASE ev.during.e = "fmt" -> <<"C10">>
           [] ev.during.e = "streamio" -> <<"C17">>
           [] ev.during.e \in {"int", "parse"} -> <<"C12">>
           [] ev.during.e \in {"float", "parsef"} -> <<"C13">>
           [] ev.during.e = "ffreuse" -> <<"C18">>
           [] OTHER -> <<"HARNESS">>

(* ---- a kept formatter object: a refused call (unsupported notation) leaves the text of the earlier call (C18) *)
FfRecs(ev) == IF ev.exc = "bad_format" /\ ev.after = ev.before /\ ev.n2 = ev.n /\ ev.z = ev.n THEN <<>>
              ELSE << [line |-> l, i |-> ev.i, k |-> 0, what |-> "formatter object after a refused call", cls |-> "ffreuse/" \o ev.exc, props |-> <<"C18">>, kf |-> "none"] >>

Recs(ev) == CASE ev.e = "fmt" -> FmtRecs(ev)
              [] ev.e = "ffreuse" -> FfRecs(ev)
              [] ev.e = "streamio" -> StreamIoRecs(ev)
              [] ev.e = "int" -> IntRecs(ev)
              [] ev.e = "parse" -> ParseRecs(ev)
              [] ev.e = "float" -> FloatRecs(ev)
              [] ev.e = "parsef" -> ParseFRecs(ev)
              [] OTHER -> << [line |-> l, i |-> ev.i, k |-> 0, what |-> "unknown event", props |-> <<"HARNESS">>, kf |-> "none"] >>

TPlatform == Ev.e = "Platform" /\ plat' = [dflt |-> Ev.dflt, wchar_bits |-> Ev.wchar_bits] /\ UNCHANGED <<book, ndec>>
TOp == /\ Ev.e \notin {"Platform", "Abnormal"} /\ plat # NoPlat
       /\ book' = BookAdd(book, Recs(Ev)) /\ ndec' = ndec + 1 /\ UNCHANGED plat
TAbnormal == /\ Ev.e = "Abnormal"
             /\ book' = BookAdd(book, << [line |-> l, i |-> Ev.i, k |-> 0, what |-> "abnormal", cls |-> Ev.kind,
                                          props |-> AbnormalProps(Ev), kf |-> KF_FmtAbnormal(Ev)] >>)
             /\ UNCHANGED <<plat, ndec>>
TStep == /\ ~done /\ l <= Len(TraceLog) /\ (TPlatform \/ TOp \/ TAbnormal) /\ l' = l + 1 /\ done' = FALSE
TFinish == /\ ~done /\ l = Len(TraceLog) + 1
           /\ ndJsonSerialize(OutFile, << [lines |-> Len(TraceLog), nrej |-> book.nrej, kfn |-> book.kfn,
                                           n_decided |-> ndec, rej |-> book.rej] >>)
           /\ done' = TRUE /\ UNCHANGED <<l, plat, book, ndec>>
Next == TStep \/ TFinish
Spec == Init /\ [][Next]_vars
Accepted == TLCGet("stats").diameter = Len(TraceLog) + 2
=============================================================================
