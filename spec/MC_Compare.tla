----------------------------- MODULE MC_Compare -----------------------------
(***************************************************************************)
(* C06 at the model level: Compare is a total order (antisymmetric,        *)
(* transitive, zero exactly on equal operands) that extends to operands of *)
(* any length, CompareN compares prefixes, the case-insensitive kernel is  *)
(* equality after folding, and CompareSized orders by the size difference  *)
(* without narrowing.  Three strings grow one byte at a time.              *)
(***************************************************************************)
EXTENDS StringOps, TLC

CONSTANTS Alpha, MaxLen

VARIABLES a, b, c
vars == <<a, b, c>>
Init == a = <<>> /\ b = <<>> /\ c = <<>>
Grow(x, xn) == Len(x) < MaxLen /\ \E u \in Alpha : xn = Append(x, u)
Next == \/ Grow(a, a') /\ UNCHANGED <<b, c>>
        \/ Grow(b, b') /\ UNCHANGED <<a, c>>
        \/ Grow(c, c') /\ UNCHANGED <<a, b>>
Spec == Init /\ [][Next]_vars

Num(k) == [s |-> 1, m |-> <<k, 0, 0, 0>>]
Antisymmetric == Compare(a, b) = 0 - Compare(b, a)
ZeroIffEqual  == (Compare(a, b) = 0) <=> (a = b)
Transitive    == (Compare(a, b) <= 0 /\ Compare(b, c) <= 0) => Compare(a, c) <= 0
PrefixFirst   == (Len(a) < Len(b) /\ Take(b, Len(a)) = a) => Compare(a, b) = -1
Unsigned      == (a # <<>> /\ b # <<>> /\ a[1] < b[1]) => Compare(a, b) = -1
CompareNLaw   == \A n \in 0..(MaxLen + 1) :
                    /\ CompareN(a, b, Num(n)) = Compare(Take(a, n), Take(b, n))
                    /\ (n >= Max2(Len(a), Len(b)) => CompareN(a, b, Num(n)) = Compare(a, b))
FoldKernel    == /\ (Compare(FoldSeq(a), FoldSeq(b)) = 0) <=> (FoldSeq(a) = FoldSeq(b))
                 /\ FoldSeq(FoldSeq(a)) = FoldSeq(a)
                 /\ FoldSeq(UpperSeq(a)) = FoldSeq(a)
                 /\ \A k \in 1..Len(a) : (a[k] < 65 \/ (a[k] > 90 /\ a[k] < 97) \/ a[k] > 122) =>
                        (FoldSeq(a)[k] = a[k] /\ UpperSeq(a)[k] = a[k])
(* sizes that differ by 2^31 or more, with a common prefix *)
BigSizes == {Num(0), Num(1), [s |-> 1, m |-> <<65535, 32767, 0, 0>>], [s |-> 1, m |-> <<0, 32768, 0, 0>>],
             [s |-> 1, m |-> <<0, 0, 1, 0>>], [s |-> 1, m |-> <<65535, 65535, 65535, 65535>>]}
SizedOrder == \A x \in BigSizes, y \in BigSizes :
                 /\ CompareSized(<<>>, x, <<>>, y) = 0 - CompareSized(<<>>, y, <<>>, x)
                 /\ (CompareSized(<<>>, x, <<>>, y) = 0) <=> (x = y)
                 /\ \A z \in BigSizes : (CompareSized(<<>>, x, <<>>, y) <= 0 /\ CompareSized(<<>>, y, <<>>, z) <= 0)
                                           => CompareSized(<<>>, x, <<>>, z) <= 0
=============================================================================
