---------------------------- MODULE MC_BufferPool ----------------------------
(***************************************************************************)
(* Bounded instance of BufferPool used (a) to model-check the abstract     *)
(* pool and (b) as the generator of operation schedules: every transition  *)
(* TLC explores is emitted (EmitEdges) and bin/check turns the state graph *)
(* into schedules that cover every (state, operation) edge on the real     *)
(* library.  Lengths are taken relative to a small symbolic limit L: the   *)
(* classes 0, 1, L-1, L, L+1, 2L are what the executor scales to the real  *)
(* limit of each element type.                                             *)
(***************************************************************************)
EXTENDS BufferPool, Json

CONSTANTS Slots, L, Tags, EmitEdges, WithFaults, TrackPeak

Lens == {0, 1, L - 1, L, L + 1, 2 * L}
Vals == {Fill(n, t) : n \in Lens, t \in Tags}
Junk(n) == Fill(n, "J")

(* peak: a history variable - the longest value each object has held since it was constructed.  An object whose    *)
(* value is shorter than its peak has been shrunk, cleared or moved from: its in-object array or its block may     *)
(* still hold the earlier units, which no public call shows and which a wrong fast path can resurrect.  The pool   *)
(* specification does not depend on it; with TrackPeak it is part of the state identity, so that the generated     *)
(* schedules reach every (value, peak) combination and execute every operation there (histories, not states).     *)
VARIABLES buf, act, peak
vars == <<buf, act, peak>>
View == <<buf, peak>>
Max(a, b) == IF a > b THEN a ELSE b
PeakAfter(b2) == [s \in Slots |-> IF ~TrackPeak \/ b2[s] = Dead THEN 0 ELSE Max(peak[s], Len(b2[s].val))]

Blk(s) == s          \* canonical block naming: a slot's block is named after the slot
TagOf(v) == IF v = <<>> THEN "-" ELSE v[1]

Init == buf = [s \in Slots |-> Dead] /\ act = [n |-> "init"] /\ peak = [s \in Slots |-> 0]

Construct(s, v) ==
    /\ ConstructG(buf, s) /\ buf' = ConstructR(L, buf, s, v, Blk(s))
    /\ act' = [n |-> "construct", a |-> s, b |-> 0, len |-> Len(v), tag |-> TagOf(v)]
ConstructFill(s, v) ==
    /\ ConstructG(buf, s) /\ buf' = ConstructR(L, buf, s, v, Blk(s))
    /\ act' = [n |-> "constructfill", a |-> s, b |-> 0, len |-> Len(v), tag |-> TagOf(v)]
CopyConstruct(d, s) ==
    /\ CopyConstructG(buf, d, s) /\ buf' = CopyConstructR(L, buf, d, s, Blk(d))
    /\ act' = [n |-> "copyconstruct", a |-> d, b |-> s, len |-> 0, tag |-> "-"]
MoveConstruct(d, s, mv) ==
    /\ MoveConstructG(buf, d, s) /\ buf' = MoveConstructR(L, buf, d, s, mv, Blk(d), Blk(s))
    /\ act' = [n |-> "moveconstruct", a |-> d, b |-> s, len |-> 0, tag |-> "-"]
CopyAssign(d, s) ==
    /\ CopyAssignG(buf, d, s) /\ buf' = CopyAssignR(L, buf, d, s, Blk(d))
    /\ act' = [n |-> "copyassign", a |-> d, b |-> s, len |-> 0, tag |-> "-"]
MoveAssign(d, s, mv) ==
    /\ MoveAssignG(buf, d, s) /\ buf' = MoveAssignR(L, buf, d, s, mv, Blk(d), Blk(s))
    /\ act' = [n |-> "moveassign", a |-> d, b |-> s, len |-> 0, tag |-> "-"]
Allocate(s, n) ==
    /\ AllocateG(buf, s) /\ buf' = AllocateR(L, buf, s, Junk(n), Blk(s))
    /\ act' = [n |-> "allocate", a |-> s, b |-> 0, len |-> n, tag |-> "J"]
AllocateFill(s, v) ==
    /\ AllocateG(buf, s) /\ buf' = AllocateR(L, buf, s, v, Blk(s))
    /\ act' = [n |-> "allocatefill", a |-> s, b |-> 0, len |-> Len(v), tag |-> TagOf(v)]
(* ==, !=, compare() between two live objects: a read *)
Observe(d, s) ==
    /\ IsLive(buf, d) /\ IsLive(buf, s) /\ UNCHANGED buf
    /\ act' = [n |-> "observe", a |-> d, b |-> s, len |-> 0, tag |-> "-"]
Clear(s) ==
    /\ ClearG(buf, s) /\ buf' = ClearR(buf, s)
    /\ act' = [n |-> "clear", a |-> s, b |-> 0, len |-> 0, tag |-> "-"]
Destroy(s) ==
    /\ DestroyG(buf, s) /\ buf' = DestroyR(buf, s)
    /\ act' = [n |-> "destroy", a |-> s, b |-> 0, len |-> 0, tag |-> "-"]

(* allocation failure inside an operation that allocates (a long value)    *)
FaultKeep(d)  == buf' = buf
FaultEmpty(d) == buf' = Upd(buf, d, Live(<<>>, Self))
ConstructFault(s, v) ==
    /\ ConstructG(buf, s) /\ IsLong(L, v) /\ buf' = buf
    /\ act' = [n |-> "fault construct", a |-> s, b |-> 0, len |-> Len(v), tag |-> TagOf(v)]
ConstructFillFault(s, v) ==
    /\ ConstructG(buf, s) /\ IsLong(L, v) /\ buf' = buf
    /\ act' = [n |-> "fault constructfill", a |-> s, b |-> 0, len |-> Len(v), tag |-> TagOf(v)]
CopyConstructFault(d, s) ==
    /\ CopyConstructG(buf, d, s) /\ IsLong(L, buf[s].val) /\ buf' = buf
    /\ act' = [n |-> "fault copyconstruct", a |-> d, b |-> s, len |-> 0, tag |-> "-"]
CopyAssignFault(d, s) ==
    /\ CopyAssignG(buf, d, s) /\ d # s /\ IsLong(L, buf[s].val)
    /\ (FaultKeep(d) \/ FaultEmpty(d))
    /\ act' = [n |-> "fault copyassign", a |-> d, b |-> s, len |-> 0, tag |-> "-"]
AllocateFault(s, n) ==
    /\ AllocateG(buf, s) /\ n >= L
    /\ (FaultKeep(s) \/ FaultEmpty(s))
    /\ act' = [n |-> "fault allocate", a |-> s, b |-> 0, len |-> n, tag |-> "J"]

MovedFromChoices(d, s) == {<<>>} \cup (IF IsLive(buf, s) THEN {buf[s].val} ELSE {})
                               \cup (IF IsLive(buf, d) THEN {buf[d].val} ELSE {})

PoolNext ==
    \/ \E s \in Slots, v \in Vals : Construct(s, v) \/ ConstructFill(s, v) \/ AllocateFill(s, v)
    \/ \E d, s \in Slots : CopyConstruct(d, s) \/ CopyAssign(d, s) \/ Observe(d, s)
    \/ \E d, s \in Slots : \E mv \in MovedFromChoices(d, s) : MoveConstruct(d, s, mv) \/ MoveAssign(d, s, mv)
    \/ \E s \in Slots, n \in Lens : Allocate(s, n)
    \/ \E s \in Slots : Clear(s) \/ Destroy(s)
    \/ /\ WithFaults
       /\ \/ \E s \in Slots, v \in Vals : ConstructFault(s, v) \/ ConstructFillFault(s, v)
          \/ \E d, s \in Slots : CopyConstructFault(d, s) \/ CopyAssignFault(d, s)
          \/ \E s \in Slots, n \in Lens : AllocateFault(s, n)

Next == PoolNext /\ peak' = PeakAfter(buf')
Spec == Init /\ [][Next]_vars

---------------------------------------------------------------------------
TypeOK == \A s \in Slots : buf[s] = Dead \/
              (buf[s].st = "live" /\ buf[s].stor \in {Self} \cup Slots)
Representation == Valid(L, buf)                 \* StorageMode and Exclusive
NoLeakByConstruction == Owned(buf) = {Blk(s) : s \in HeapSlots(buf)}

PeakIsHistory == \A s \in Slots : IF buf[s] = Dead THEN peak[s] = 0 ELSE (~TrackPeak /\ peak[s] = 0) \/ peak[s] >= Len(buf[s].val)

(* A step changes only the objects the operation names (copies are         *)
(* independent, sources of copies and bystanders are untouched).           *)
Touches == IF act'.n \in {"moveconstruct", "moveassign"} THEN {act'.a, act'.b}
           ELSE IF act'.n = "observe" THEN {} ELSE {act'.a}
OnlyNamedObjectsChange == [][OnlyTouched(buf, buf', Touches)]_vars

(* A failed allocation leaves the target with its old or the empty value.  *)
FaultsAreClean == [][(act'.n \in {"fault construct", "fault constructfill", "fault copyconstruct", "fault copyassign", "fault allocate"})
                       => FaultTargetOk(L, buf, buf', act'.a)]_vars

---------------------------------------------------------------------------
(* Edge emission for schedule generation (ACTION_CONSTRAINT).              *)
SlotKey(r) == IF r = Dead THEN "D" ELSE ToString(Len(r.val)) \o TagOf(r.val) \o (IF r.stor = Self THEN "s" ELSE "h")
RECURSIVE KeyFrom(_, _)
KeyFrom(b, s) == IF s \notin Slots THEN "" ELSE SlotKey(b[s]) \o "." \o KeyFrom(b, s + 1)
RECURSIVE PKeyFrom(_, _, _)
PKeyFrom(b, pk, s) == IF s \notin Slots THEN ""
                      ELSE SlotKey(b[s]) \o (IF TrackPeak /\ b[s] # Dead THEN "~" \o ToString(pk[s]) ELSE "") \o "." \o PKeyFrom(b, pk, s + 1)
Key(b) == KeyFrom(b, 1)
Emit == ~EmitEdges \/ PrintT("EDGE " \o ToJson([f |-> PKeyFrom(buf, peak, 1), t |-> PKeyFrom(buf', peak', 1), a |-> act']))
=============================================================================
