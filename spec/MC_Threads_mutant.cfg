SPECIFICATION Spec
CONSTANTS
  Threads = {1, 2, 3}
  NOps = 2
  ScratchMode = "sharedStatic"
INVARIANTS NoConflictingAccess ResultsEqualSequential SharedIsReadOnly
CHECK_DEADLOCK FALSE
