SPECIFICATION Spec
CONSTANTS
  Threads = {1, 2}
  NOps = 1
  ScratchMode = "sharedStatic"
INVARIANTS ResultsEqualSequential
CHECK_DEADLOCK FALSE
