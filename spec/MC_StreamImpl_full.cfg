SPECIFICATION Spec
CONSTANTS
  Slots = {1, 2, 3}
  STACK = 3
  Tags = {"A", "B", "C"}
  MaxLen = 14
  AsIs = FALSE
  WithFaults = TRUE
CONSTRAINT Bound
VIEW View
INVARIANTS ContentIsConcat Exclusive NoLeak ValidObject Terminates
CHECK_DEADLOCK FALSE
