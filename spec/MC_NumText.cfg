SPECIFICATION Spec
CONSTANTS
  Step = 257
INVARIANTS RoundTrip Canonical SignedText NarrowLaws
CHECK_DEADLOCK FALSE
