-------------------------- MODULE MC_Utf8Deciders --------------------------
(***************************************************************************)
(* Model-level checks behind C02.  The library decides UTF-8 validity in   *)
(* three separately written places (a structural validator, a repairing    *)
(* copier, and the decoder used by the transcoders).  They are written     *)
(* here as three different definitions, in the shape of the code, and TLC  *)
(* checks on every unit sequence over a class-representative alphabet that *)
(* they agree, that repair yields valid text, that a malformed unit never  *)
(* swallows a neighbour, and that the accept/reject decision is the same   *)
(* for every target.  Each state is one (encoding, input) case.            *)
(***************************************************************************)
EXTENDS Unicode, TLC

CONSTANTS MaxLen8, MaxLen16, MaxLen32

Alpha8  == {0, 65, 127, 128, 191, 192, 194, 223, 224, 237, 239, 240, 244, 247, 248, 255}
Alpha16 == {65, 233, 8364, 55295, 55296, 56319, 56320, 57343, 57344, 65535}
Alpha32 == {<<0, 65>>, <<0, 255>>, <<0, 256>>, <<0, 55295>>, <<0, 55296>>, <<0, 57343>>, <<0, 57344>>,
            <<0, 65535>>, <<1, 0>>, <<16, 65535>>, <<17, 0>>, <<32767, 65535>>, <<32768, 0>>, <<65535, 65535>>}

VARIABLES enc, u
vars == <<enc, u>>

(* The input grows one unit at a time (a trie walk), so that TLC explores  *)
(* and checks the cases breadth-first on all workers.                      *)
Init == enc \in {"utf8", "utf16", "utf32"} /\ u = <<>>
Extend(A, n) == Len(u) < n /\ \E a \in A : u' = Append(u, a)
Next == /\ \/ enc = "utf8"  /\ Extend(Alpha8, MaxLen8)
           \/ enc = "utf16" /\ Extend(Alpha16, MaxLen16)
           \/ enc = "utf32" /\ Extend(Alpha32, MaxLen32)
        /\ UNCHANGED enc
Spec == Init /\ [][Next]_vars

---------------------------------------------------------------------------
IsC(b) == b \div 64 = 2                      \* (b & 0xC0) == 0x80

(* shape 1: the validator - a cursor that either reaches the end or stops *)
RECURSIVE Validate8(_, _)
Validate8(s, i) ==
    IF i > Len(s) THEN TRUE
    ELSE LET b == s[i] IN
         IF b < 128 THEN Validate8(s, i + 1)
         ELSE IF b \div 32 = 6 THEN                  \* (b & 0xE0) == 0xC0
              i + 1 <= Len(s) /\ IsC(s[i+1]) /\ Validate8(s, i + 2)
         ELSE IF b \div 16 = 14 THEN                 \* (b & 0xF0) == 0xE0
              i + 2 <= Len(s) /\ IsC(s[i+1]) /\ IsC(s[i+2]) /\ Validate8(s, i + 3)
         ELSE IF b \div 8 = 30 THEN                  \* (b & 0xF8) == 0xF0
              i + 3 <= Len(s) /\ IsC(s[i+1]) /\ IsC(s[i+2]) /\ IsC(s[i+3]) /\ Validate8(s, i + 4)
         ELSE FALSE

(* shape 2: the repairing copier - copies whole sequences, replaces ONE byte *)
FFFD8 == <<239, 191, 189>>
RECURSIVE Cleanup8(_, _)
Cleanup8(s, i) ==
    IF i > Len(s) THEN <<>>
    ELSE LET b == s[i]
             n == IF b < 128 THEN 1 ELSE IF b \div 32 = 6 THEN 2
                  ELSE IF b \div 16 = 14 THEN 3 ELSE IF b \div 8 = 30 THEN 4 ELSE 0
             whole == n > 0 /\ i + n - 1 <= Len(s) /\ \A j \in 1..(n-1) : IsC(s[i+j])
         IN IF whole THEN SubSeq(s, i, i + n - 1) \o Cleanup8(s, i + n)
            ELSE FFFD8 \o Cleanup8(s, i + 1)

(* shape 3: the decoder is Unicode!Items("utf8", _) *)

Deciders8Agree ==
    enc = "utf8" =>
        /\ Validate8(u, 1) <=> ~AnyBad(Items("utf8", u))
        /\ Validate8(u, 1) <=> (Cleanup8(u, 1) = u)
        /\ Cleanup8(u, 1) = RefOut("utf8", "utf8", u, TRUE)

RepairIsValid8 == enc = "utf8" => Validate8(Cleanup8(u, 1), 1)

(* a Bad item is one unit, and decoding resumes exactly behind it: the    *)
(* items after position k are the items of the suffix taken alone         *)
Shift(its, d) == [k \in 1..Len(its) |-> [its[k] EXCEPT !.at = @ + d]]
Isolation ==
    LET its == Items(enc, u) IN
    \A k \in 1..Len(its) :
        /\ its[k].bad => its[k].n = 1
        /\ LET nxt == its[k].at + its[k].n IN
           SubSeq(its, k + 1, Len(its)) = Shift(Items(enc, SubSeq(u, nxt, Len(u))), nxt - 1)

(* check_validity throws exactly when some item is Bad - for every target, *)
(* and substitute_invalid never throws for validity                        *)
DecisionSameForAllTargets ==
    \A dst \in Encodings :
        /\ Conv(enc, dst, "check", TRUE, u).res = (IF AnyBad(Items(enc, u)) THEN "unicode_error" ELSE "ok")
        /\ Conv(enc, dst, "substitute", TRUE, u).res = "ok"
        /\ ~AnyBad(Items(enc, u)) =>
              Conv(enc, dst, "check", TRUE, u) = Conv(enc, dst, "substitute", TRUE, u)

(* repaired output re-validates in the target encoding whenever the decoded *)
(* items are scalar values (the stated carve-out: targets that cannot       *)
(* represent a tolerated value)                                             *)
AllScalarItems(its) == \A k \in 1..Len(its) : its[k].bad \/ IsScalar(its[k].cp)
RepairRevalidates ==
    \A dst \in {"utf8", "utf16", "utf32"} :
        LET its == Items(enc, u)
            out == Conv(enc, dst, "substitute", TRUE, u).out
        IN  (AllScalarItems(its) \/ (enc = "utf8" /\ dst = "utf8")) => ~AnyBad(Items(dst, out))

(* each Bad unit is replaced by exactly one U+FFFD / '?' and nothing else changes *)
RECURSIVE CountBad(_, _)
CountBad(its, k) == IF k > Len(its) THEN 0 ELSE (IF its[k].bad THEN 1 ELSE 0) + CountBad(its, k + 1)
OneReplacementPerBadUnit ==
    LET its == Items(enc, u)
        o32 == Conv(enc, "utf32", "substitute", TRUE, u).out
    IN  /\ Len(o32) = Len(its)
        /\ \A k \in 1..Len(its) : o32[k] = (IF its[k].bad THEN U32(ReplCP) ELSE U32(its[k].cp))
=============================================================================
