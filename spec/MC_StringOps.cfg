SPECIFICATION Spec
CONSTANTS
  Alpha = {0, 65, 97, 98}
  MaxLen = 4
  NeedleLen = 2
INVARIANTS ScanIsFind FindIsFirst FindLastIsLast PrefixSuffix Reassemble SubstrClamps LeftRight TrimLaws SplitJoin SplitAll TokenizeLaws ReplaceLaws
CHECK_DEADLOCK FALSE
