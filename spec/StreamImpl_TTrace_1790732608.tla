---- MODULE StreamImpl_TTrace_1790732608 ----
EXTENDS Sequences, TLCExt, StreamImpl, Toolbox, Naturals, TLC

_expression ==
    LET StreamImpl_TEExpression == INSTANCE StreamImpl_TEExpression
    IN StreamImpl_TEExpression!expression
----

_trace ==
    LET StreamImpl_TETrace == INSTANCE StreamImpl_TETrace
    IN StreamImpl_TETrace!trace
----

_inv ==
    ~(
        TLCGet("level") = Len(_TETrace)
        /\
        act = ("moveconstruct")
        /\
        mem = (<<>>)
        /\
        obj = (<<[st |-> "live", alloc |-> 3, chars |-> 0, stack |-> <<"J", "J", "J">>, size |-> 0], [st |-> "live", alloc |-> 0, chars |-> 0, stack |-> <<"J", "J", "J">>, size |-> 0]>>)
        /\
        hung = (FALSE)
        /\
        model = (<<<<>>, <<>>>>)
    )
----

_init ==
    /\ model = _TETrace[1].model
    /\ hung = _TETrace[1].hung
    /\ act = _TETrace[1].act
    /\ obj = _TETrace[1].obj
    /\ mem = _TETrace[1].mem
----

_next ==
    /\ \E i,j \in DOMAIN _TETrace:
        /\ \/ /\ j = i + 1
              /\ i = TLCGet("level")
        /\ model  = _TETrace[i].model
        /\ model' = _TETrace[j].model
        /\ hung  = _TETrace[i].hung
        /\ hung' = _TETrace[j].hung
        /\ act  = _TETrace[i].act
        /\ act' = _TETrace[j].act
        /\ obj  = _TETrace[i].obj
        /\ obj' = _TETrace[j].obj
        /\ mem  = _TETrace[i].mem
        /\ mem' = _TETrace[j].mem

\* Uncomment the ASSUME below to write the states of the error trace
\* to the given file in Json format. Note that you can pass any tuple
\* to `JsonSerialize`. For example, a sub-sequence of _TETrace.
    \* ASSUME
    \*     LET J == INSTANCE Json
    \*         IN J!JsonSerialize("StreamImpl_TTrace_1790732608.json", _TETrace)

=============================================================================

 Note that you can extract this module `StreamImpl_TEExpression`
  to a dedicated file to reuse `expression` (the module in the 
  dedicated `StreamImpl_TEExpression.tla` file takes precedence 
  over the module `StreamImpl_TEExpression` below).

---- MODULE StreamImpl_TEExpression ----
EXTENDS Sequences, TLCExt, StreamImpl, Toolbox, Naturals, TLC

expression == 
    [
        \* To hide variables of the `StreamImpl` spec from the error trace,
        \* remove the variables below.  The trace will be written in the order
        \* of the fields of this record.
        model |-> model
        ,hung |-> hung
        ,act |-> act
        ,obj |-> obj
        ,mem |-> mem
        
        \* Put additional constant-, state-, and action-level expressions here:
        \* ,_stateNumber |-> _TEPosition
        \* ,_modelUnchanged |-> model = model'
        
        \* Format the `model` variable as Json value.
        \* ,_modelJson |->
        \*     LET J == INSTANCE Json
        \*     IN J!ToJson(model)
        
        \* Lastly, you may build expressions over arbitrary sets of states by
        \* leveraging the _TETrace operator.  For example, this is how to
        \* count the number of times a spec variable changed up to the current
        \* state in the trace.
        \* ,_modelModCount |->
        \*     LET F[s \in DOMAIN _TETrace] ==
        \*         IF s = 1 THEN 0
        \*         ELSE IF _TETrace[s].model # _TETrace[s-1].model
        \*             THEN 1 + F[s-1] ELSE F[s-1]
        \*     IN F[_TEPosition - 1]
    ]

=============================================================================



Parsing and semantic processing can take forever if the trace below is long.
 In this case, it is advised to uncomment the module below to deserialize the
 trace from a generated binary file.

\*
\*---- MODULE StreamImpl_TETrace ----
\*EXTENDS IOUtils, StreamImpl, TLC
\*
\*trace == IODeserialize("StreamImpl_TTrace_1790732608.bin", TRUE)
\*
\*=============================================================================
\*

---- MODULE StreamImpl_TETrace ----
EXTENDS StreamImpl, TLC

trace == 
    <<
    ([act |-> "init",mem |-> <<>>,obj |-> <<[st |-> "dead"], [st |-> "dead"]>>,hung |-> FALSE,model |-> <<<<>>, <<>>>>]),
    ([act |-> "construct",mem |-> <<>>,obj |-> <<[st |-> "dead"], [st |-> "live", alloc |-> 3, chars |-> 0, stack |-> <<"J", "J", "J">>, size |-> 0]>>,hung |-> FALSE,model |-> <<<<>>, <<>>>>]),
    ([act |-> "moveconstruct",mem |-> <<>>,obj |-> <<[st |-> "live", alloc |-> 3, chars |-> 0, stack |-> <<"J", "J", "J">>, size |-> 0], [st |-> "live", alloc |-> 0, chars |-> 0, stack |-> <<"J", "J", "J">>, size |-> 0]>>,hung |-> FALSE,model |-> <<<<>>, <<>>>>])
    >>
----


=============================================================================

---- CONFIG StreamImpl_TTrace_1790732608 ----
CONSTANTS
    Slots = { 1 , 2 }
    STACK = 3
    Tags = { "A" , "B" , "C" }
    MaxLen = 9
    AsIs = TRUE
    WithFaults = TRUE

INVARIANT
    _inv

CHECK_DEADLOCK
    \* CHECK_DEADLOCK off because of PROPERTY or INVARIANT above.
    FALSE

INIT
    _init

NEXT
    _next

CONSTANT
    _TETrace <- _trace

ALIAS
    _expression
=============================================================================
\* Generated on Wed Sep 30 01:43:28 UTC 2026