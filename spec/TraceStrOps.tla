---------------------------- MODULE TraceStrOps ----------------------------
(***************************************************************************)
(* Trace validation of recorded comparison / search / slice / split /      *)
(* replace calls (C06 - C09).  One line = one input with the results of    *)
(* every overload form, grouped by identical result; every group must be   *)
(* the result StringOps defines (so all forms are forced to agree).        *)
(***************************************************************************)
EXTENDS StringOps, Hash, KnownStr, TraceLib, Json, IOUtils, TLC

TraceLog == ndJsonDeserialize(IOEnv.TRACE)
OutFile  == IOEnv.OUT

VARIABLES l, book, ndec, done
vars == <<l, book, ndec, done>>
Init == l = 1 /\ book = Book0 /\ ndec = 0 /\ done = FALSE
Ev == TraceLog[l]

B(x) == IF x THEN 1 ELSE 0
Ok(g) == g.res = "ok"
CI(ev) == ev.ci = 1

(* ---- C06 *)
ISignOf(ev) == LET S == {k \in 1..Len(ev.g) : ev.g[k].k = "isign"} IN
               IF S = {} THEN 2 ELSE ev.g[CHOOSE k \in S : TRUE].v
CmpGroupOk(ev, g) ==
    LET c == Compare(ev.a, ev.b)
        fe == FoldSeq(ev.a) = FoldSeq(ev.b) IN
    /\ Ok(g)
    /\ CASE g.k = "sign"  -> g.v = c
         [] g.k = "eq"    -> g.v = B(c = 0)
         [] g.k = "ne"    -> g.v = B(c # 0)
         [] g.k = "lt"    -> g.v = B(c < 0)
         [] g.k = "isign" -> (g.v = 0) <=> fe           \* kernel: equality after ASCII folding
         [] g.k = "ieq"   -> g.v = B(fe)
         [] g.k = "ilt"   -> g.v = B(ISignOf(ev) < 0) /\ (fe => g.v = 0)
         [] g.k = "hash"  -> (ev.a = ev.b) => g.v[1] = g.v[2]
         [] g.k = "hash_i" -> fe => g.v[1] = g.v[2]
         [] g.k = "hashre" -> g.v[1] = g.v[2]       \* an object given the value b hashes like b, whatever it held before
         [] OTHER -> FALSE
(* all case-insensitive forms must report the same sign *)
CmpEventOk(ev) == Cardinality({k \in 1..Len(ev.g) : ev.g[k].k = "isign"}) <= 1

(* wide buffers: the order of the UNITS (char_traits), whatever their byte layout *)
CmpWGroupOk(ev, g) ==
    LET c == Compare(ev.a, ev.b) IN
    /\ Ok(g)
    /\ CASE g.k = "sign" -> g.v = c [] g.k = "eq" -> g.v = B(c = 0) [] g.k = "ne" -> g.v = B(c # 0)
         [] g.k = "lt" -> g.v = B(c < 0) [] OTHER -> FALSE
CmpNGroupOk(ev, g) ==
    LET pa == Take(ev.a, MagMin(ev.n, Len(ev.a)))
        pb == Take(ev.b, MagMin(ev.n, Len(ev.b))) IN
    /\ Ok(g)
    /\ CASE g.k = "sign"  -> g.v = Compare(pa, pb)
         [] g.k = "isign" -> (g.v = 0) <=> (FoldSeq(pa) = FoldSeq(pb))
         [] OTHER -> FALSE

SizedGroupOk(ev, g) ==
    LET ls == IF ev.hasmax = 1 THEN NumMin(ev.ls, ev.mx) ELSE ev.ls
        rs == IF ev.hasmax = 1 THEN NumMin(ev.rs, ev.mx) ELSE ev.rs IN
    Ok(g) /\ g.k = "sign" /\ g.v = CompareSized(ev.pa, ls, ev.pb, rs)

MatrixOk(ev) ==
    LET n == Len(ev.strs) IN
    /\ \A i, j \in 1..n : ev.cs[i][j] = Compare(ev.strs[i], ev.strs[j])
    /\ \A i, j \in 1..n : /\ ev.ci[i][j] = 0 - ev.ci[j][i]
                          /\ (ev.ci[i][j] = 0) <=> (FoldSeq(ev.strs[i]) = FoldSeq(ev.strs[j]))
    /\ \A i, j, k \in 1..n : (ev.ci[i][j] <= 0 /\ ev.ci[j][k] <= 0) => ev.ci[i][k] <= 0

CaseGroupOk(ev, g) ==
    /\ Ok(g)
    /\ CASE g.k = "upper" -> g.v = UpperSeq(ev.s)
         [] g.k = "lower" -> g.v = FoldSeq(ev.s)
         [] OTHER -> FALSE

(* ---- C07 *)
FindGroupOk(ev, g) ==
    /\ Ok(g)
    /\ CASE g.k = "idx" -> g.v = Find(ev.h, ev.n, ev.start, CI(ev))
         [] g.k = "has" -> g.v = B(Find(ev.h, ev.n, ev.start, CI(ev)) >= 0)
         [] OTHER -> FALSE
FindLastGroupOk(ev, g) == Ok(g) /\ g.k = "idx" /\ g.v = FindLast(ev.h, ev.n, ev.max, CI(ev))
AffixGroupOk(ev, g) ==
    /\ Ok(g)
    /\ CASE g.k = "starts" -> g.v = B(StartsWith(ev.s, ev.p, CI(ev)))
         [] g.k = "ends"   -> g.v = B(EndsWith(ev.s, ev.p, CI(ev)))
         [] OTHER -> FALSE

(* ---- C08 *)
SubstrGroupOk(ev, g) == Ok(g) /\ g.k = "sub" /\ g.v = Substr(ev.s, ev.start, ev.count)
LeftRightGroupOk(ev, g) ==
    /\ Ok(g)
    /\ CASE g.k = "left"  -> g.v = Left(ev.s, ev.n)
         [] g.k = "right" -> g.v = Right(ev.s, ev.n)
         [] OTHER -> FALSE
TrimGroupOk(ev, g) ==
    /\ Ok(g)
    /\ CASE g.k = "tl" -> g.v = TrimLeft(ev.s, ev.cs)
         [] g.k = "tr" -> g.v = TrimRight(ev.s, ev.cs)
         [] g.k = "tb" -> g.v = Trim(ev.s, ev.cs)
         [] OTHER -> FALSE
BaflGroupOk(ev, g) ==
    /\ Ok(g)
    /\ CASE g.k = "bf" -> g.v = BeforeFirst(ev.s, ev.sep, CI(ev))
         [] g.k = "af" -> g.v = AfterFirst(ev.s, ev.sep, CI(ev))
         [] g.k = "bl" -> g.v = BeforeLast(ev.s, ev.sep, CI(ev))
         [] g.k = "al" -> g.v = AfterLast(ev.s, ev.sep, CI(ev))
         [] OTHER -> FALSE

(* ---- C09 *)
SplitGroupOk(ev, g)    == Ok(g) /\ g.k = "pieces" /\ g.v = Split(ev.s, ev.sep, ev.max, CI(ev))
TokenizeGroupOk(ev, g) == Ok(g) /\ g.k = "tokens" /\ g.v = Tokenize(ev.s, ev.ds)
ReplaceGroupOk(ev, g)  == Ok(g) /\ g.k = "rep" /\ g.v = Replace(ev.s, ev.from, ev.to, CI(ev))

(* ---- X01: beyond the listed properties - element access, iteration, fill, boolean text *)
Rev(q) == [k \in 1..Len(q) |-> q[Len(q) + 1 - k]]
AccessGroupOk(ev, g) ==
    LET n == Len(ev.s)
        small == IsSmall(ev.idx) /\ ~IsNeg(ev.idx)
        i == IF small THEN SmallVal(ev.idx) ELSE 0 IN
    CASE g.k = "at"    -> IF small /\ i < n THEN Ok(g) /\ g.v = ev.s[i + 1] ELSE g.res = "std::out_of_range"
      [] g.k = "index" -> Ok(g) /\ small /\ i <= n /\ g.v = (IF i < n THEN ev.s[i + 1] ELSE 0)      \* [size()] is the terminator
      [] g.k = "front" -> Ok(g) /\ g.v = (IF n = 0 THEN 0 ELSE ev.s[1])
      [] g.k = "back"  -> Ok(g) /\ g.v = (IF n = 0 THEN 0 ELSE ev.s[n])
      [] g.k = "iter"  -> Ok(g) /\ g.v = ev.s
      [] g.k = "riter" -> Ok(g) /\ g.v = Rev(ev.s)
      [] g.k = "size"  -> Ok(g) /\ g.v = n
      [] g.k = "empty" -> Ok(g) /\ g.v = B(n = 0)
      [] OTHER -> FALSE
(* (ST::string::fill validates its result like any other construction from bytes: a run of a byte >= 0x80 is *)
(* not UTF-8 and may be refused with unicode_error; the buffer forms have no such notion)                    *)
FillGroupOk(ev, g) ==
    /\ g.k = "fill"
    /\ \/ Ok(g) /\ g.v = [k \in 1..ev.n |-> ev.ch]
       \/ g.res = "unicode_error" /\ ev.ch >= 128 /\ ev.n > 0 /\ g.f = <<"string::fill(n,c)">>
TrueText == <<116, 114, 117, 101>>
FalseText == <<102, 97, 108, 115, 101>>
BoolGroupOk(ev, g) ==
    LET f == FoldSeq(ev.s)
        word == f = TrueText \/ f = FalseText
        v == IF f = TrueText THEN 1 ELSE IF f = FalseText THEN 0 ELSE ev.libc_nonzero
        ok == IF word THEN 1 ELSE B(ev.consumed > 0)
        full == IF word THEN 1 ELSE B(ev.consumed = Len(ev.s))
    IN /\ Ok(g)
       /\ CASE g.k = "val"  -> g.v = v
            [] g.k = "valr" -> g.v = <<v, ok, full>>
            [] g.k = "from" -> g.v = (IF v = 1 THEN TrueText ELSE FalseText)
            [] OTHER -> FALSE


(* ---- X02: beyond the listed properties - exact hash values (FNV-1a in the width of size_t), views, copies, *)
(* c_str(substitute), user-defined literals                                                                  *)
HashGroupOk(ev, g) ==
    /\ Ok(g)
    /\ CASE g.k = "hash"   -> g.v = Fnv1aLogged(ev.s, ev.bits, ev.sx = 1)
         [] g.k = "hash_i" -> g.v = Fnv1aLogged(FoldSeq(ev.s), ev.bits, ev.sx = 1)
         [] OTHER -> FALSE
(* a view is the requested window INTO the object's own storage (offset = start), nothing is copied *)
ViewGroupOk(ev, g) ==
    LET n == Len(ev.s)
        len == IF ev.len < 0 THEN n - ev.start ELSE ev.len IN
    /\ Ok(g)
    /\ CASE g.k = "view" -> g.v.b = SubSeq(ev.s, ev.start + 1, ev.start + len) /\ g.v.off = ev.start
         [] g.k = "copy" -> g.v = ev.s
         [] g.k = "term" -> g.v = 0
         [] OTHER -> FALSE
(* c_str(substitute) is the substitute exactly for empty contents, otherwise the terminated contents themselves *)
CstrGroupOk(ev, g) ==
    /\ Ok(g)
    /\ CASE g.k = "cstr"  -> IF Len(ev.s) = 0 THEN g.v.sub = 1 /\ g.v.z = ev.sub
                             ELSE g.v.sub = 0 /\ g.v.own = 1 /\ g.v.z = ev.s
         [] g.k = "cstr0" -> g.v.own = 1 /\ g.v.z = ev.s
         [] OTHER -> FALSE
LiteralGroupOk(ev, g) == Ok(g) /\ g.k = "lit" /\ g.v = ev.s

GroupOk(ev, g) ==
    CASE ev.e = "cmp" -> CmpGroupOk(ev, g)
      [] ev.e = "cmpn" -> CmpNGroupOk(ev, g)
      [] ev.e = "cmpw" -> CmpWGroupOk(ev, g)
      [] ev.e = "cmpsized" -> SizedGroupOk(ev, g)
      [] ev.e = "case" -> CaseGroupOk(ev, g)
      [] ev.e = "find" -> FindGroupOk(ev, g)
      [] ev.e = "findlast" -> FindLastGroupOk(ev, g)
      [] ev.e = "affix" -> AffixGroupOk(ev, g)
      [] ev.e = "substr" -> SubstrGroupOk(ev, g)
      [] ev.e = "leftright" -> LeftRightGroupOk(ev, g)
      [] ev.e = "trim" -> TrimGroupOk(ev, g)
      [] ev.e = "bafl" -> BaflGroupOk(ev, g)
      [] ev.e = "split" -> SplitGroupOk(ev, g)
      [] ev.e = "tokenize" -> TokenizeGroupOk(ev, g)
      [] ev.e = "replace" -> ReplaceGroupOk(ev, g)
      [] ev.e = "access" -> AccessGroupOk(ev, g)
      [] ev.e = "fill" -> FillGroupOk(ev, g)
      [] ev.e = "tobool" -> BoolGroupOk(ev, g)
      [] ev.e = "hashv" -> HashGroupOk(ev, g)
      [] ev.e = "view" -> ViewGroupOk(ev, g)
      [] ev.e = "cstr" -> CstrGroupOk(ev, g)
      [] ev.e = "literal" -> LiteralGroupOk(ev, g)
      [] OTHER -> FALSE

EventOk(ev) ==
    CASE ev.e = "cmp" -> CmpEventOk(ev)
      [] ev.e = "cmpmatrix" -> MatrixOk(ev)
      [] OTHER -> TRUE

PropOfOp(e) ==
    IF e \in {"cmp", "cmpn", "cmpw", "cmpsized", "cmpmatrix", "case"} THEN <<"C06">>
    ELSE IF e \in {"find", "findlast", "affix"} THEN <<"C07">>
    ELSE IF e \in {"substr", "leftright", "trim", "bafl"} THEN <<"C08">>
    ELSE IF e \in {"split", "tokenize", "replace"} THEN <<"C09">>
    ELSE IF e \in {"access", "fill", "tobool"} THEN <<"X01">>
    ELSE IF e \in {"hashv", "view", "cstr", "literal"} THEN <<"X02">>
    ELSE <<"HARNESS">>

OpNames == {"cmp", "cmpn", "cmpw", "cmpsized", "cmpmatrix", "case", "find", "findlast", "affix", "substr", "leftright",
            "trim", "bafl", "split", "tokenize", "replace", "access", "fill", "tobool", "hashv", "view", "cstr", "literal"}

TPlatform == Ev.e = "Platform" /\ UNCHANGED <<book, ndec>>

TOp ==
    /\ Ev.e \in OpNames
    /\ LET bad  == {k \in 1..Len(Ev.g) : ~GroupOk(Ev, Ev.g[k])}
           bs   == SetToSeq(bad)
           recs == [j \in 1..Len(bs) |->
                      [line |-> l, i |-> Ev.i, k |-> bs[j], what |-> "group", cls |-> Ev.e \o "/" \o Ev.g[bs[j]].k \o "/" \o Ev.g[bs[j]].res,
                       props |-> PropOfOp(Ev.e),
                       kf |-> KF_StrOps(Ev, Ev.g[bs[j]])]]
           evr  == IF EventOk(Ev) THEN <<>>
                   ELSE << [line |-> l, i |-> Ev.i, k |-> 0, what |-> "event", props |-> PropOfOp(Ev.e), kf |-> "none"] >>
       IN book' = BookAdd(book, recs \o evr)
    /\ ndec' = ndec + Len(Ev.g) + 1

TAbnormal ==
    /\ Ev.e = "Abnormal"
    /\ book' = BookAdd(book, << [line |-> l, i |-> Ev.i, k |-> 0, what |-> "abnormal",
                                 props |-> IF "e" \in DOMAIN Ev.during THEN PropOfOp(Ev.during.e) ELSE <<"HARNESS">>,
                                 kf |-> "none"] >>)
    /\ UNCHANGED ndec

TStep == /\ ~done /\ l <= Len(TraceLog)
         /\ (TPlatform \/ TOp \/ TAbnormal)
         /\ l' = l + 1 /\ done' = FALSE

TFinish ==
    /\ ~done /\ l = Len(TraceLog) + 1
    /\ ndJsonSerialize(OutFile, << [lines |-> Len(TraceLog), nrej |-> book.nrej, kfn |-> book.kfn,
                                    n_decided |-> ndec, rej |-> book.rej] >>)
    /\ done' = TRUE /\ UNCHANGED <<l, book, ndec>>

Next == TStep \/ TFinish
Spec == Init /\ [][Next]_vars
Accepted == TLCGet("stats").diameter = Len(TraceLog) + 2
=============================================================================
