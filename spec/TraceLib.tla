------------------------------ MODULE TraceLib ------------------------------
(***************************************************************************)
(* Bookkeeping shared by the trace specifications: the set of rejected     *)
(* events is accumulated (instead of stopping TLC at the first one) so     *)
(* that one known finding cannot hide a new violation behind it.           *)
(* A rejection record has at least: line, what, props (sequence of         *)
(* property ids it contradicts) and kf (known-finding id or "none").       *)
(* Rejections classified as a known finding are counted per (kf, props)    *)
(* and only the first few are kept, so the cap on kept records can never   *)
(* be exhausted by known findings.                                         *)
(***************************************************************************)
EXTENDS Naturals, Sequences, FiniteSets

Cap       == 25      \* fresh rejections kept per class (r.what plus r.cls when present) and trace
KfSamples == 2       \* examples kept per known-finding class

Book0 == [rej |-> <<>>, nrej |-> 0, kfn |-> <<>>, cn |-> <<>>]

ClassOf(r) == IF "cls" \in DOMAIN r THEN r.what \o ":" \o r.cls ELSE r.what
ClsIndex(cn, key) == IF \E j \in 1..Len(cn) : cn[j].key = key
                     THEN CHOOSE j \in 1..Len(cn) : cn[j].key = key ELSE 0

RECURSIVE JoinStr(_, _)
JoinStr(ss, k) == IF k > Len(ss) THEN "" ELSE ss[k] \o "," \o JoinStr(ss, k + 1)
KfKey(r) == r.kf \o "|" \o JoinStr(r.props, 1)

KfIndex(kfn, key) == IF \E j \in 1..Len(kfn) : kfn[j].key = key
                     THEN CHOOSE j \in 1..Len(kfn) : kfn[j].key = key ELSE 0

BookAdd1(b, r) ==
    IF r.kf = "none"
    THEN LET key == ClassOf(r)
             j   == ClsIndex(b.cn, key)
             n   == IF j = 0 THEN 0 ELSE b.cn[j].n
         IN [b EXCEPT !.nrej = @ + 1,
                      !.cn = IF j = 0 THEN Append(@, [key |-> key, n |-> 1]) ELSE [@ EXCEPT ![j].n = @ + 1],
                      !.rej = IF n < Cap THEN Append(@, r) ELSE @]
    ELSE LET key == KfKey(r)
             j   == KfIndex(b.kfn, key)
             n   == IF j = 0 THEN 0 ELSE b.kfn[j].n
         IN [b EXCEPT !.nrej = @ + 1,
                      !.kfn = IF j = 0 THEN Append(@, [key |-> key, kf |-> r.kf, props |-> r.props, n |-> 1])
                              ELSE [@ EXCEPT ![j].n = @ + 1],
                      !.rej = IF n < KfSamples THEN Append(@, r) ELSE @]

RECURSIVE BookAdd(_, _)
BookAdd(b, recs) == IF recs = <<>> THEN b ELSE BookAdd(BookAdd1(b, Head(recs)), Tail(recs))

RECURSIVE SetToSeq(_)
SetToSeq(S) == IF S = {} THEN <<>> ELSE LET x == CHOOSE y \in S : \A z \in S : y <= z
                                       IN <<x>> \o SetToSeq(S \ {x})
=============================================================================
