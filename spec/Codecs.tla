------------------------------- MODULE Codecs -------------------------------
(***************************************************************************)
(* Hex and base64 (RFC 4648, standard alphabet, '=' padding): reference    *)
(* encoders, validity predicates and decoders (C14, C15), the semantics of *)
(* the caller-buffer decoders, and a loop-shaped model of the base64       *)
(* decoder as written, with the index of every byte it writes.             *)
(* Texts and byte arrays are sequences of 0..255.                          *)
(***************************************************************************)
EXTENDS Naturals, Integers, Sequences

(* ---- hex *)
HexDigit(n) == IF n < 10 THEN 48 + n ELSE 97 + n - 10                \* lower case
HexVal(c) == IF c >= 48 /\ c <= 57 THEN c - 48
             ELSE IF c >= 97 /\ c <= 102 THEN c - 87
             ELSE IF c >= 65 /\ c <= 70 THEN c - 55 ELSE -1
RECURSIVE HexEnc(_)
HexEnc(b) == IF b = <<>> THEN <<>> ELSE <<HexDigit(Head(b) \div 16), HexDigit(Head(b) % 16)>> \o HexEnc(Tail(b))
HexValid(s) == Len(s) % 2 = 0 /\ \A i \in 1..Len(s) : HexVal(s[i]) >= 0
HexDecSize(s) == IF Len(s) % 2 = 0 THEN Len(s) \div 2 ELSE -1
HexDec(s) == [k \in 1..(Len(s) \div 2) |-> HexVal(s[2 * k - 1]) * 16 + HexVal(s[2 * k])]

(* ---- base64 *)
B64Char(n) == IF n < 26 THEN 65 + n ELSE IF n < 52 THEN 97 + n - 26 ELSE IF n < 62 THEN 48 + n - 52
              ELSE IF n = 62 THEN 43 ELSE 47
B64Val(c) == IF c >= 65 /\ c <= 90 THEN c - 65
             ELSE IF c >= 97 /\ c <= 122 THEN c - 97 + 26
             ELSE IF c >= 48 /\ c <= 57 THEN c - 48 + 52
             ELSE IF c = 43 THEN 62 ELSE IF c = 47 THEN 63 ELSE -1
RECURSIVE B64Enc(_)
B64Enc(b) ==
    IF Len(b) = 0 THEN <<>>
    ELSE IF Len(b) = 1 THEN <<B64Char(b[1] \div 4), B64Char((b[1] % 4) * 16), 61, 61>>
    ELSE IF Len(b) = 2 THEN <<B64Char(b[1] \div 4), B64Char((b[1] % 4) * 16 + b[2] \div 16),
                              B64Char((b[2] % 16) * 4), 61>>
    ELSE <<B64Char(b[1] \div 4), B64Char((b[1] % 4) * 16 + b[2] \div 16),
           B64Char((b[2] % 16) * 4 + b[3] \div 64), B64Char(b[3] % 64)>> \o B64Enc(SubSeq(b, 4, Len(b)))

Pads(s) == IF Len(s) >= 1 /\ s[Len(s)] = 61 THEN (IF Len(s) >= 2 /\ s[Len(s) - 1] = 61 THEN 2 ELSE 1) ELSE 0
(* length multiple of four, alphabet only, '=' only as the last one or two characters *)
B64Valid(s) == /\ Len(s) % 4 = 0
               /\ \A i \in 1..(Len(s) - Pads(s)) : B64Val(s[i]) >= 0
(* the size implied by length and padding (what a null output returns) *)
B64DecSize(s) == IF Len(s) % 4 # 0 THEN -1
                 ELSE (Len(s) \div 4) * 3 - (IF Len(s) > 0 /\ s[Len(s)] = 61 THEN 1 ELSE 0)
                                          - (IF Len(s) > 1 /\ s[Len(s) - 1] = 61 THEN 1 ELSE 0)
Group(s, g) == LET a == B64Val(s[4 * g - 3])  b == B64Val(s[4 * g - 2])
                   c == B64Val(s[4 * g - 1])  d == B64Val(s[4 * g]) IN
               <<a * 4 + b \div 16, (b % 16) * 16 + c \div 4, (c % 4) * 64 + d>>
RECURSIVE B64DecFrom(_, _)
B64DecFrom(s, g) ==                 \* s valid
    IF g > Len(s) \div 4 THEN <<>>
    ELSE IF g < Len(s) \div 4 THEN Group(s, g) \o B64DecFrom(s, g + 1)
    ELSE LET a == B64Val(s[4 * g - 3])  b == B64Val(s[4 * g - 2]) IN
         IF Pads(s) = 2 THEN <<a * 4 + b \div 16>>
         ELSE IF Pads(s) = 1 THEN <<a * 4 + b \div 16, (b % 16) * 16 + B64Val(s[4 * g - 1]) \div 4>>
         ELSE Group(s, g)
B64Dec(s) == B64DecFrom(s, 1)

(* ---- the decoders' contract ---------------------------------------------*)
(* allocating form: the bytes, or codec_error *)
DecodeAlloc(kind, s) ==
    IF kind = "hex" THEN (IF HexValid(s) THEN [res |-> "ok", out |-> HexDec(s)] ELSE [res |-> "codec_error", out |-> <<>>])
    ELSE (IF B64Valid(s) THEN [res |-> "ok", out |-> B64Dec(s)] ELSE [res |-> "codec_error", out |-> <<>>])
(* caller-buffer form: return value; on success the first ret bytes of the buffer *)
DecodeBufRet(kind, s, outnull, outsize) ==
    LET dsz == IF kind = "hex" THEN HexDecSize(s) ELSE B64DecSize(s)
        valid == IF kind = "hex" THEN HexValid(s) ELSE B64Valid(s) IN
    IF outnull THEN dsz
    ELSE IF dsz < 0 \/ dsz > outsize \/ ~valid THEN -1
    ELSE dsz

(* ---- the base64 decoder loop as written ---------------------------------*)
(* returns [ret, nwritten, maxidx]: bytes are written at indices 1..nwritten  *)
(* (possibly before a failure is detected); maxidx is the highest index      *)
At0(s, i) == IF i <= Len(s) THEN s[i] ELSE 0
RECURSIVE ImplLoop(_, _, _, _)
ImplLoop(s, sp, outp, endp) ==            \* sp: 0-based offset into s; outp, endp: counts
    IF outp + 3 < endp
    THEN LET v == [k \in 1..4 |-> B64Val(At0(s, sp + k))] IN
         IF v[1] < 0 \/ v[2] < 0 \/ v[3] < 0 \/ v[4] < 0 THEN [ret |-> -1, nwritten |-> outp]
         ELSE ImplLoop(s, sp + 4, outp + 3, endp)
    ELSE LET v == [k \in 1..4 |-> B64Val(At0(s, sp + k))] IN
         IF v[1] < 0 \/ v[2] < 0 THEN [ret |-> -1, nwritten |-> outp]
         ELSE LET o1 == outp + 1 IN
              IF At0(s, sp + 3) # 61 /\ v[3] < 0 THEN [ret |-> -1, nwritten |-> o1]
              ELSE LET o2 == IF At0(s, sp + 3) # 61 THEN o1 + 1 ELSE o1 IN
                   IF At0(s, sp + 4) # 61 /\ (v[3] < 0 \/ v[4] < 0) THEN [ret |-> -1, nwritten |-> o2]
                   ELSE LET o3 == IF At0(s, sp + 4) # 61 THEN o2 + 1 ELSE o2 IN [ret |-> o3, nwritten |-> o3]
B64DecImpl(s, outsize) ==
    LET dsz == B64DecSize(s) IN
    IF dsz < 0 \/ dsz > outsize THEN [ret |-> -1, nwritten |-> 0]
    ELSE IF dsz = 0 THEN [ret |-> 0, nwritten |-> 0]
    ELSE ImplLoop(s, 0, 0, dsz)
=============================================================================
