SPECIFICATION Spec
CONSTANTS
  Alpha = {0, 65, 127, 128, 255, 256, 2047, 2048, 55295, 57344, 65533, 65535, 65536, 1114111}
  ScalarStep = 1
  MaxLen = 3
INVARIANTS InputWellFormed DecodesBack Lossless NeverAnError NothingElse SameInAllModes RangeError Chain
CHECK_DEADLOCK FALSE
