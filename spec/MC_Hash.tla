------------------------------ MODULE MC_Hash ------------------------------
(* Published FNV-1a test vectors (isthe.com/chongo/tech/comp/fnv) and structural laws of the limb arithmetic. *)
EXTENDS Hash, TLC, FiniteSets

Limbs(seq) == seq     \* limbs are written least significant first

ASSUME Fnv1a(<<>>, 64) = <<8997, 33826, 40164, 52210>>                          \* cbf29ce484222325
ASSUME Fnv1a(<<97>>, 64) = <<60556, 34305, 56396, 44899>>                        \* af63dc4c8601ec8c
ASSUME Fnv1a(<<102, 111, 111, 98, 97, 114>>, 64) = <<26600, 63289, 16753, 34196>>  \* 85944171f73967e8
ASSUME Fnv1a(<<>>, 32) = <<40389, 33052>>                                        \* 811c9dc5
ASSUME Fnv1a(<<97>>, 32) = <<10540, 58380>>                                      \* e40c292c
ASSUME Fnv1a(<<102, 111, 111, 98, 97, 114>>, 32) = <<63848, 49052>>              \* bf9cf968

(* xor is an involution with identity 0, and commutative, on all byte pairs *)
ASSUME \A a, b \in 0..255 : Xor8(a, b) = Xor8(b, a) /\ Xor8(Xor8(a, b), b) = a /\ Xor8(a, 0) = a /\ Xor8(a, b) \in 0..255
(* one step is injective in the byte (the multiplier is odd): 256 distinct successors of any state sampled *)
States == {Basis64, <<0, 0, 0, 0>>, <<65535, 65535, 65535, 65535>>, <<1, 0, 0, 32768>>}
ASSUME \A h \in States : Cardinality({Step64(h, b, FALSE) : b \in 0..255}) = 256
ASSUME \A h \in {Basis32, <<0, 0>>, <<65535, 65535>>} : Cardinality({Step32(h, b, FALSE) : b \in 0..255}) = 256
(* limbs stay limbs *)
ASSUME \A h \in States : \A b \in {0, 1, 127, 128, 255} : \A k \in 1..4 : Step64(h, b, TRUE)[k] \in 0..65535
(* low 32 bits of the 64-bit multiply by 2^40+0x1b3 equal the 32-bit multiply by 0x1b3: cross-check of the carry chain *)
MulSmall(h, m) == LET r0 == h[1] * m  r1 == h[2] * m + r0 \div W IN <<r0 % W, r1 % W>>
ASSUME \A h \in States : <<Mul64(h)[1], Mul64(h)[2]>> = MulSmall(<<h[1], h[2]>>, 435)

(* signed and unsigned char agree exactly on 7-bit text, and differ on every single high byte *)
ASSUME \A b \in 0..127 : FnvSx(<<b, 65>>, 64, TRUE) = FnvSx(<<b, 65>>, 64, FALSE)
ASSUME \A b \in 128..255 : FnvSx(<<b>>, 64, TRUE) # FnvSx(<<b>>, 64, FALSE) /\ FnvSx(<<b>>, 32, TRUE) # FnvSx(<<b>>, 32, FALSE)
\* sign extension = xor with FF..FFbb; expected value computed independently with big integers, for the bytes FF 00 FF
ASSUME FnvSx(<<255, 0, 255>>, 64, TRUE) = <<11439, 28919, 35864, 57846>>

VARIABLE x
Init == x = 0
Next == UNCHANGED x
Spec == Init /\ [][Next]_x
=============================================================================
