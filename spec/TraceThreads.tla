---------------------------- MODULE TraceThreads ----------------------------
(***************************************************************************)
(* Trace validation for C20.  The executor runs K threads through the      *)
(* operation catalogue concurrently (ThreadSanitizer build), then runs the *)
(* catalogue alone.  Accepted behaviours are those of Threads.tla in       *)
(* "perCall" mode: every result a thread obtained concurrently equals the  *)
(* result of the same operation run alone (ResultsEqualSequential), and    *)
(* the process never ended abnormally (a ThreadSanitizer report - a        *)
(* conflicting access, NoConflictingAccess - ends it and is recorded as an *)
(* Abnormal event, which no action of the specification explains).         *)
(***************************************************************************)
EXTENDS Naturals, Sequences, TraceLib, Json, IOUtils, TLC

TraceLog == ndJsonDeserialize(IOEnv.TRACE)
OutFile  == IOEnv.OUT

VARIABLES l, plat, ref, book, npar, nsolo, sawEnd, done
vars == <<l, plat, ref, book, npar, nsolo, sawEnd, done>>
NoPlat == [threads |-> 0, rounds |-> 0, nops |-> 0]
Init == l = 1 /\ plat = NoPlat /\ ref = <<>> /\ book = Book0 /\ npar = 0 /\ nsolo = 0 /\ sawEnd = FALSE /\ done = FALSE
Ev == TraceLog[l]

TPlatform == /\ Ev.e = "Platform" /\ plat' = [threads |-> Ev.threads, rounds |-> Ev.rounds, nops |-> Ev.nops]
             /\ UNCHANGED <<ref, book, npar, nsolo, sawEnd>>
(* the sequential behaviour: operation k run alone yields r *)
TSolo == /\ Ev.e = "solo" /\ Ev.k = Len(ref) + 1
         /\ ref' = Append(ref, Ev.r) /\ nsolo' = nsolo + 1
         /\ UNCHANGED <<plat, book, npar, sawEnd>>
(* a concurrent execution of operation k by thread t must return the same bytes *)
TPar == /\ Ev.e = "par"
        /\ npar' = npar + 1
        /\ IF Ev.k \in 1..Len(ref) /\ Ev.r = ref[Ev.k] THEN UNCHANGED book
           ELSE book' = BookAdd(book, << [line |-> l, i |-> Ev.i, k |-> Ev.k, what |-> "result differs from the sequential result",
                                          cls |-> Ev.op, props |-> <<"C20">>, kf |-> "none"] >>)
        /\ UNCHANGED <<plat, ref, nsolo, sawEnd>>
TEnd == /\ Ev.e = "end" /\ sawEnd' = TRUE
        /\ IF nsolo = plat.nops /\ npar = plat.threads * plat.rounds * plat.nops THEN UNCHANGED book
           ELSE book' = BookAdd(book, << [line |-> l, i |-> Ev.i, k |-> 0, what |-> "incomplete trace", props |-> <<"HARNESS">>, kf |-> "none"] >>)
        /\ UNCHANGED <<plat, ref, npar, nsolo>>
TAbnormal == /\ Ev.e = "Abnormal"
             /\ book' = BookAdd(book, << [line |-> l, i |-> Ev.i, k |-> 0, what |-> "abnormal", cls |-> Ev.kind, props |-> <<"C20">>, kf |-> "none"] >>)
             /\ sawEnd' = TRUE
             /\ UNCHANGED <<plat, ref, npar, nsolo>>
TStep == /\ ~done /\ l <= Len(TraceLog)
         /\ (TPlatform \/ TSolo \/ TPar \/ TEnd \/ TAbnormal)
         /\ l' = l + 1 /\ done' = FALSE
TFinish ==
    /\ ~done /\ l = Len(TraceLog) + 1
    /\ ndJsonSerialize(OutFile, << [lines |-> Len(TraceLog), nrej |-> book.nrej + (IF sawEnd THEN 0 ELSE 1), kfn |-> book.kfn,
                                    n_decided |-> npar, n_sequential_results |-> nsolo,
                                    rej |-> IF sawEnd THEN book.rej
                                            ELSE book.rej \o << [line |-> Len(TraceLog), i |-> 0, k |-> 0, what |-> "trace ends without end event",
                                                                 props |-> <<"HARNESS">>, kf |-> "none"] >>] >>)
    /\ done' = TRUE
    /\ UNCHANGED <<l, plat, ref, book, npar, nsolo, sawEnd>>
Next == TStep \/ TFinish
Spec == Init /\ [][Next]_vars
Accepted == TLCGet("stats").diameter = Len(TraceLog) + 2
=============================================================================
