------------------------------ MODULE Unicode ------------------------------
(***************************************************************************)
(* Reference semantics of the text encodings string_theory converts        *)
(* between, and of its three validation modes.                             *)
(*                                                                         *)
(* Code units:  "utf8" / "latin1": 0..255;  "utf16": 0..65535;             *)
(*              "utf32": pairs <<hi16, lo16>> (TLC integers are 32 bit).   *)
(* "wchar" is an alias of "utf32" or "utf16", bound from the Platform      *)
(* event of a trace (WcharIs).                                             *)
(***************************************************************************)
EXTENDS Naturals, Sequences

MaxCP   == 1114111        \* 0x10FFFF
ReplCP  == 65533          \* U+FFFD
IsSurr(c)   == c >= 55296 /\ c <= 57343
IsScalar(c) == c <= MaxCP /\ ~IsSurr(c)

Encodings == {"utf8", "utf16", "utf32", "latin1"}
Modes     == {"assume", "substitute", "check"}

---------------------------------------------------------------------------
(* Standard encoders.  Enc8 is also defined on surrogate code points (the  *)
(* library tolerates them) - it is the generalized 1..4 byte form.         *)
Enc8(c) ==
    IF c < 128 THEN <<c>>
    ELSE IF c < 2048 THEN <<192 + c \div 64, 128 + (c % 64)>>
    ELSE IF c < 65536 THEN <<224 + c \div 4096, 128 + ((c \div 64) % 64), 128 + (c % 64)>>
    ELSE <<240 + c \div 262144, 128 + ((c \div 4096) % 64),
           128 + ((c \div 64) % 64), 128 + (c % 64)>>

Enc16(c) ==
    IF c < 65536 THEN <<c>>
    ELSE <<55296 + (c - 65536) \div 1024, 56320 + ((c - 65536) % 1024)>>

U32(c)   == <<c \div 65536, c % 65536>>
Enc32(c) == << U32(c) >>

Enc(e, c) == CASE e = "utf8"   -> Enc8(c)
               [] e = "utf16"  -> Enc16(c)
               [] e = "utf32"  -> Enc32(c)
               [] e = "latin1" -> <<c>>

RECURSIVE EncSeq(_, _)
EncSeq(e, cs) == IF cs = <<>> THEN <<>> ELSE Enc(e, Head(cs)) \o EncSeq(e, Tail(cs))

---------------------------------------------------------------------------
(* Tolerant, item-wise, left-to-right decoding.  An item is either a       *)
(* character (code point cp, consuming n units) or a Bad unit (always      *)
(* exactly ONE unit, so that a malformed unit never swallows a neighbour). *)
(* Tolerated by design and therefore characters: overlong forms, encoded   *)
(* surrogates, 4-byte forms up to 0x1FFFFF, a low surrogate followed by a  *)
(* high one, UTF-32 surrogate values.                                      *)
Good(cp, n) == [bad |-> FALSE, cp |-> cp, n |-> n]
BadItem     == [bad |-> TRUE,  cp |-> 0,  n |-> 1]

IsCont(u, i) == i <= Len(u) /\ u[i] >= 128 /\ u[i] <= 191

Item8(u, i) ==
    LET b == u[i] IN
    IF b < 128 THEN Good(b, 1)
    ELSE IF b >= 192 /\ b <= 223 THEN
        IF IsCont(u, i+1) THEN Good((b - 192) * 64 + (u[i+1] - 128), 2) ELSE BadItem
    ELSE IF b >= 224 /\ b <= 239 THEN
        IF IsCont(u, i+1) /\ IsCont(u, i+2)
        THEN Good((b - 224) * 4096 + (u[i+1] - 128) * 64 + (u[i+2] - 128), 3)
        ELSE BadItem
    ELSE IF b >= 240 /\ b <= 247 THEN
        IF IsCont(u, i+1) /\ IsCont(u, i+2) /\ IsCont(u, i+3)
        THEN Good((b - 240) * 262144 + (u[i+1] - 128) * 4096
                  + (u[i+2] - 128) * 64 + (u[i+3] - 128), 4)
        ELSE BadItem
    ELSE BadItem            \* stray continuation 80..BF, or F8..FF

IsHigh(x) == x >= 55296 /\ x <= 56319
IsLow(x)  == x >= 56320 /\ x <= 57343

Item16(u, i) ==
    LET b == u[i] IN
    IF ~IsSurr(b) THEN Good(b, 1)
    ELSE IF i + 1 > Len(u) THEN BadItem
    ELSE IF IsHigh(b) THEN
        IF IsLow(u[i+1]) THEN Good(65536 + (b - 55296) * 1024 + (u[i+1] - 56320), 2)
        ELSE BadItem
    ELSE
        IF IsHigh(u[i+1]) THEN Good(65536 + (b - 56320) + (u[i+1] - 55296) * 1024, 2)
        ELSE BadItem

Item32(u, i) ==
    LET hi == u[i][1]  lo == u[i][2] IN
    IF hi > 16 THEN BadItem ELSE Good(hi * 65536 + lo, 1)

ItemAt(e, u, i) == CASE e = "utf8"   -> Item8(u, i)
                     [] e = "utf16"  -> Item16(u, i)
                     [] e = "utf32"  -> Item32(u, i)
                     [] e = "latin1" -> Good(u[i], 1)

(* Items with their starting index: << [bad, cp, n, at] ... >> *)
RECURSIVE ItemsFrom(_, _, _)
ItemsFrom(e, u, i) ==
    IF i > Len(u) THEN <<>>
    ELSE LET it == ItemAt(e, u, i)
         IN  << [bad |-> it.bad, cp |-> it.cp, n |-> it.n, at |-> i] >>
             \o ItemsFrom(e, u, i + it.n)
Items(e, u) == ItemsFrom(e, u, 1)

AnyBad(its) == \E k \in 1..Len(its) : its[k].bad

---------------------------------------------------------------------------
(* Output of one item in the target encoding.  surrAsUnit selects, for a   *)
(* surrogate code point going to UTF-16, between the bare unit and U+FFFD  *)
(* (the statement leaves it open: the target cannot represent the value).  *)
Repl(dst) == IF dst = "latin1" THEN <<63>> ELSE Enc(dst, ReplCP)

OutItem(src, dst, u, it, surrAsUnit) ==
    IF it.bad THEN Repl(dst)
    ELSE IF src = dst THEN SubSeq(u, it.at, it.at + it.n - 1)   \* same encoding: tolerated forms are kept as they are
    ELSE CASE dst = "utf8"   -> Enc8(it.cp)
           [] dst = "utf16"  -> IF it.cp > MaxCP THEN <<ReplCP>>
                                ELSE IF IsSurr(it.cp) /\ ~surrAsUnit THEN <<ReplCP>>
                                ELSE Enc16(it.cp)
           [] dst = "utf32"  -> Enc32(it.cp)
           [] dst = "latin1" -> IF it.cp < 256 THEN <<it.cp>> ELSE <<63>>

RECURSIVE OutFrom(_, _, _, _, _, _)
OutFrom(src, dst, u, its, k, surrAsUnit) ==
    IF k > Len(its) THEN <<>>
    ELSE OutItem(src, dst, u, its[k], surrAsUnit) \o OutFrom(src, dst, u, its, k + 1, surrAsUnit)

RefOut(src, dst, u, surrAsUnit) == OutFrom(src, dst, u, Items(src, u), 1, surrAsUnit)

(* Items the target cannot represent (outside the accept/reject clause of  *)
(* the statement, but still bound by totality): > 10FFFF or a surrogate    *)
(* code point into UTF-16.                                                 *)
Unrep(dst, its) == dst = "utf16" /\ \E k \in 1..Len(its) :
                       ~its[k].bad /\ (its[k].cp > MaxCP \/ IsSurr(its[k].cp))
L1Range(dst, sub, its) == dst = "latin1" /\ ~sub /\ \E k \in 1..Len(its) :
                       ~its[k].bad /\ its[k].cp >= 256

(***************************************************************************)
(* The conversion relation: is (res, out) an allowed outcome of converting *)
(* units u from src to dst under mode / substitute_out_of_range = sub ?    *)
(*   res = "ok" with output units out, or res = "unicode_error".           *)
(* Anything else (another exception, an abort, a crash, a hang) is never   *)
(* allowed.                                                                *)
(***************************************************************************)
(* its = Items(src, u) and refA = OutFrom(src, dst, u, its, 1, TRUE) are    *)
(* passed in so that a trace line evaluates them once per input / target.  *)
ConvAllowedI(src, dst, mode, sub, u, its, refA, res, out) ==
    LET bad    == AnyBad(its)
        unrep  == Unrep(dst, its)
        l1     == L1Range(dst, sub, its)
    IN
    CASE res = "ok" ->
            /\ ~(mode = "check" /\ bad)
            /\ ~l1                              \* a representability error in every mode
            /\ \/ out = refA
               \/ unrep /\ out = OutFrom(src, dst, u, its, 1, FALSE)
               \* assume_valid on malformed input: content unspecified, size is not
               \/ mode = "assume" /\ (bad \/ unrep) /\
                     (Len(out) = Len(refA) \/ (src = "utf8" /\ dst = "utf8" /\ out = u))
      [] res = "unicode_error" ->
            \/ mode = "check" /\ (bad \/ unrep)
            \/ l1
            \/ mode = "assume" /\ (bad \/ unrep)
      [] OTHER -> FALSE

ConvAllowed(src, dst, mode, sub, u, res, out) ==
    LET its == Items(src, u) IN
    ConvAllowedI(src, dst, mode, sub, u, its, OutFrom(src, dst, u, its, 1, TRUE), res, out)

(* The deterministic reference used by other modules (sinks, streams):     *)
(* "throw" or the output units.                                            *)
Conv(src, dst, mode, sub, u) ==
    LET its == Items(src, u) IN
    IF (mode = "check" /\ AnyBad(its)) \/ L1Range(dst, sub, its)
    THEN [res |-> "unicode_error", out |-> <<>>]
    ELSE [res |-> "ok", out |-> OutFrom(src, dst, u, its, 1, TRUE)]

WellFormed(e, u) ==
    LET its == Items(e, u) IN
    /\ ~AnyBad(its)
    /\ \A k \in 1..Len(its) : IsScalar(its[k].cp)
    /\ e = "utf8" => \A k \in 1..Len(its) :
                        SubSeq(u, its[k].at, its[k].at + its[k].n - 1) = Enc8(its[k].cp)

=============================================================================
