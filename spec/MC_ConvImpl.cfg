SPECIFICATION Spec
CONSTANTS
  MaxLen8 = 4
  MaxLen16 = 3
  MaxLen32 = 3
  Slack = 0
INVARIANTS ReadsInRange Progress WrittenEqualsMeasured RefinesConv
CHECK_DEADLOCK FALSE
