----------------------------- MODULE MC_NumText -----------------------------
(***************************************************************************)
(* Model-level checks behind C12: the digit strings defined by limb        *)
(* division are canonical and parse back to the value in every base, the   *)
(* C narrowing conversions are the identity on in-range values and wrap    *)
(* modulo 2^k otherwise, and the 64-bit extremes render as known.          *)
(***************************************************************************)
EXTENDS Format, NumText, TLC

CONSTANTS Step          \* v walks 0, Step, 2*Step, ... < 65536 in every base

VARIABLES v, base
vars == <<v, base>>
Init == v = 0 /\ base \in 2..36
Next == v + Step < 65536 /\ v' = v + Step /\ UNCHANGED base
Spec == Init /\ [][Next]_vars

DigitVal(c) == IF c >= 48 /\ c <= 57 THEN c - 48 ELSE IF c >= 97 THEN c - 87 ELSE c - 55
RECURSIVE ParseDigits(_, _, _)
ParseDigits(ds, b, k) == IF k = 0 THEN 0 ELSE ParseDigits(ds, b, k - 1) * b + DigitVal(ds[k])

W(x) == [s |-> 1, m |-> <<x, 0, 0, 0>>]
Txt(up) == Digits(<<v, 0, 0, 0>>, base, up)

RoundTrip == \A up \in BOOLEAN : ParseDigits(Txt(up), base, Len(Txt(up))) = v
Canonical == \A up \in BOOLEAN :
                /\ Len(Txt(up)) >= 1
                /\ (v # 0 => Txt(up)[1] # 48)
                /\ \A k \in 1..Len(Txt(up)) : DigitVal(Txt(up)[k]) < base
                /\ \A k \in 1..Len(Txt(up)) : LET c == Txt(up)[k] IN
                      (c >= 48 /\ c <= 57) \/ (IF up THEN c >= 65 /\ c <= 90 ELSE c >= 97 /\ c <= 122)
SignedText == /\ IntText([s |-> -1, m |-> <<v, 0, 0, 0>>], base, FALSE)
                    = (IF v = 0 THEN Txt(FALSE) ELSE <<45>> \o Txt(FALSE))
NarrowLaws ==
    /\ Narrow("u16", W(v)) = W(v)
    /\ Narrow("u32", [s |-> 1, m |-> <<v, v, 7, 9>>]) = [s |-> 1, m |-> <<v, v, 0, 0>>]
    /\ NumEq(Narrow("i16", W(v)), IF v < 32768 THEN W(v) ELSE [s |-> -1, m |-> <<65536 - v, 0, 0, 0>>])
    /\ NumEq(Narrow("i16", [s |-> -1, m |-> <<v, 0, 0, 0>>]),
             IF v <= 32768 THEN [s |-> -1, m |-> <<v, 0, 0, 0>>] ELSE W(65536 - v))
    /\ NumEq(Narrow("i32", [s |-> -1, m |-> <<v, 0, 0, 0>>]), [s |-> -1, m |-> <<v, 0, 0, 0>>])
    /\ NumEq(Narrow("i64", [s |-> -1, m |-> <<v, 3, 2, 1>>]), [s |-> -1, m |-> <<v, 3, 2, 1>>])
    /\ NumEq(Narrow("i32", [s |-> 1, m |-> <<v, 32768, 0, 0>>]), [s |-> -1, m |-> <<(65536 - v) % 65536, IF v = 0 THEN 32768 ELSE 32767, 0, 0>>])

ASSUME Extremes ==
    /\ IntText([s |-> 1, m |-> <<65535, 65535, 65535, 65535>>], 16, FALSE) = [k \in 1..16 |-> 102]
    /\ IntText([s |-> 1, m |-> <<65535, 65535, 65535, 65535>>], 2, FALSE) = [k \in 1..64 |-> 49]
    /\ IntText([s |-> -1, m |-> <<0, 0, 0, 32768>>], 10, FALSE)
         = <<45, 57, 50, 50, 51, 51, 55, 50, 48, 51, 54, 56, 53, 52, 55, 55, 53, 56, 48, 56>>     \* -9223372036854775808
    /\ IntText([s |-> 1, m |-> <<65535, 65535, 65535, 65535>>], 10, FALSE)
         = <<49, 56, 52, 52, 54, 55, 52, 52, 48, 55, 51, 55, 48, 57, 53, 53, 49, 54, 49, 53>>     \* 18446744073709551615
    /\ IntText([s |-> 1, m |-> <<65535, 65535, 65535, 65535>>], 36, TRUE)
         = <<51, 87, 53, 69, 49, 49, 50, 54, 52, 83, 71, 83, 70>>                                \* 3W5E11264SGSF
    /\ IntText([s |-> -1, m |-> <<0, 32768, 0, 0>>], 16, TRUE) = <<45, 56, 48, 48, 48, 48, 48, 48, 48>>
=============================================================================
