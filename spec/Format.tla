------------------------------- MODULE Format -------------------------------
(***************************************************************************)
(* The format mini-language of string_theory (C10, C11, C17):              *)
(*   - the parser, as a machine over the bytes of the NUL-terminated       *)
(*     format string, with the set of indices every step reads;            *)
(*   - argument dispatch (sequential and &N);                              *)
(*   - rendering of integers, characters, strings and booleans under a     *)
(*     format_spec;                                                        *)
(*   - the output as a list of chunks, and the sinks as functions of it.   *)
(*                                                                         *)
(* A format string is a sequence of bytes f WITHOUT its terminator; index  *)
(* Len(f)+1 is the terminating NUL and the last index that may be read.    *)
(* Wide integers are [s |-> 1|-1, m |-> <<l0,l1,l2,l3>>] as in StringOps.  *)
(***************************************************************************)
EXTENDS Unicode, StringOps

At(f, i) == IF i <= Len(f) THEN f[i] ELSE 0          \* i <= Len(f)+1 is in bounds

(* ---- format_spec ---------------------------------------------------------*)
Spec0 == [minlen |-> 0, prec |-> -1, argidx |-> -1, align |-> "default", digit |-> "default",
          float |-> "default", pad |-> 0, plus |-> FALSE, prefix |-> FALSE, numpad |-> FALSE]

(* ---- strtol(s, &end, 10) on the format string, starting at index j ------*)
IsSpace(c) == c = 32 \/ (c >= 9 /\ c <= 13)
IsDigit(c) == c >= 48 /\ c <= 57
RECURSIVE SkipSpace(_, _)
SkipSpace(f, j) == IF IsSpace(At(f, j)) THEN SkipSpace(f, j + 1) ELSE j
RECURSIVE DigitsEnd(_, _)
DigitsEnd(f, j) == IF IsDigit(At(f, j)) THEN DigitsEnd(f, j + 1) ELSE j
RECURSIVE SkipZeros(_, _, _)
SkipZeros(f, j, e) == IF j < e /\ At(f, j) = 48 THEN SkipZeros(f, j + 1, e) ELSE j
RECURSIVE DecVal(_, _, _)
DecVal(f, j, e) == IF j >= e THEN 0 ELSE DecVal(f, j, e - 1) * 10 + (At(f, e - 1) - 48)

(* The parser stores static_cast<int>(strtol(...)): the long value narrowed to 32 bits.   *)
(* Numerals of up to 9 significant digits are evaluated directly; longer ones through   *)
(* the low 32 bits of the decimal value (two 16-bit limbs), after the saturation of     *)
(* strtol at LONG_MAX / LONG_MIN (whose int narrowings are -1 / 0).                      *)
RECURSIVE Low32(_, _, _)
Low32(f, z, e) == IF z >= e THEN <<0, 0>>
                  ELSE LET p == Low32(f, z, e - 1)
                           lo10 == p[2] * 10 + (At(f, e - 1) - 48)
                       IN << (p[1] * 10 + lo10 \div 65536) % 65536, lo10 % 65536 >>
Neg32(v) == IF v = <<0, 0>> THEN v
            ELSE << (65536 - v[1] - (IF v[2] # 0 THEN 1 ELSE 0)) % 65536, (65536 - v[2]) % 65536 >>
Int32(v) == IF v[1] < 32768 THEN v[1] * 65536 + v[2]
            ELSE 0 - ((65535 - v[1]) * 65536 + (65535 - v[2])) - 1
LongMaxDigits == <<57, 50, 50, 51, 51, 55, 50, 48, 51, 54, 56, 53, 52, 55, 55, 53, 56, 48, 55>>     \* 9223372036854775807
LongMinDigits == <<57, 50, 50, 51, 51, 55, 50, 48, 51, 54, 56, 53, 52, 55, 55, 53, 56, 48, 56>>     \* magnitude of LONG_MIN
RECURSIVE DigitsGreater(_, _, _, _)
DigitsGreater(f, z, lim, k) ==        \* the 19 digits f[z..z+18] > lim, comparing from position k
    IF k > 19 THEN FALSE
    ELSE IF At(f, z + k - 1) # lim[k] THEN At(f, z + k - 1) > lim[k]
    ELSE DigitsGreater(f, z, lim, k + 1)

(* result: [val, end, modelled]; end = j when no digits were consumed.      *)
StrToL(f, j) ==
    LET a   == SkipSpace(f, j)
        neg == At(f, a) = 45
        b   == IF At(f, a) = 45 \/ At(f, a) = 43 THEN a + 1 ELSE a
        e   == DigitsEnd(f, b)
        z   == SkipZeros(f, b, e)
        nd  == e - z
        sat == nd >= 20 \/ (nd = 19 /\ DigitsGreater(f, z, IF neg THEN LongMinDigits ELSE LongMaxDigits, 1))
    IN IF e = b THEN [val |-> 0, end |-> j, modelled |-> TRUE]
       ELSE IF nd <= 9 THEN [val |-> (IF neg THEN 0 - DecVal(f, z, e) ELSE DecVal(f, z, e)), end |-> e, modelled |-> TRUE]
       ELSE IF sat THEN [val |-> (IF neg THEN 0 ELSE -1), end |-> e, modelled |-> TRUE]
       ELSE [val |-> Int32(IF neg THEN Neg32(Low32(f, z, e)) ELSE Low32(f, z, e)), end |-> e, modelled |-> TRUE]

(* ---- parse_format(): i is the index m_format_str points at --------------*)
(* result: [res |-> "ok" | "bad_format" | "unmodelled", spec, next, maxread] *)
RECURSIVE ParseLoop(_, _, _)
ParseLoop(f, i, sp) ==
    LET c == At(f, i + 1) IN
    IF c = 0 THEN [res |-> "bad_format", spec |-> sp, next |-> i + 1, maxread |-> i + 1]
    ELSE IF c = 125 THEN [res |-> "ok", spec |-> sp, next |-> i + 2, maxread |-> i + 1]      \* '}'
    ELSE IF c = 60 THEN ParseLoop(f, i + 1, [sp EXCEPT !.align = "left"])                     \* '<'
    ELSE IF c = 62 THEN ParseLoop(f, i + 1, [sp EXCEPT !.align = "right"])                    \* '>'
    ELSE IF c = 95 THEN                                                                       \* '_'
         IF At(f, i + 2) = 0 THEN [res |-> "bad_format", spec |-> sp, next |-> i + 2, maxread |-> i + 2]
         ELSE ParseLoop(f, i + 2, [sp EXCEPT !.pad = At(f, i + 2), !.numpad = FALSE])
    ELSE IF c = 48 THEN ParseLoop(f, i + 1, [sp EXCEPT !.pad = 48, !.numpad = TRUE])          \* '0'
    ELSE IF c = 35 THEN ParseLoop(f, i + 1, [sp EXCEPT !.prefix = TRUE])                      \* '#'
    ELSE IF c = 120 THEN ParseLoop(f, i + 1, [sp EXCEPT !.digit = "hex"])                     \* 'x'
    ELSE IF c = 88 THEN ParseLoop(f, i + 1, [sp EXCEPT !.digit = "HEX"])                      \* 'X'
    ELSE IF c = 43 THEN ParseLoop(f, i + 1, [sp EXCEPT !.plus = TRUE])                        \* '+'
    ELSE IF c = 100 THEN ParseLoop(f, i + 1, [sp EXCEPT !.digit = "dec"])                     \* 'd'
    ELSE IF c = 111 THEN ParseLoop(f, i + 1, [sp EXCEPT !.digit = "oct"])                     \* 'o'
    ELSE IF c = 98 THEN ParseLoop(f, i + 1, [sp EXCEPT !.digit = "bin"])                      \* 'b'
    ELSE IF c = 99 THEN ParseLoop(f, i + 1, [sp EXCEPT !.digit = "char"])                     \* 'c'
    ELSE IF c = 102 THEN ParseLoop(f, i + 1, [sp EXCEPT !.float = "fixed"])                   \* 'f'
    ELSE IF c = 101 THEN ParseLoop(f, i + 1, [sp EXCEPT !.float = "exp"])                     \* 'e'
    ELSE IF c = 69 THEN ParseLoop(f, i + 1, [sp EXCEPT !.float = "EXP"])                      \* 'E'
    ELSE IF c >= 49 /\ c <= 57 THEN                                                           \* '1'..'9'
         LET r == StrToL(f, i + 1) IN
         IF ~r.modelled THEN [res |-> "unmodelled", spec |-> sp, next |-> i, maxread |-> r.end]
         ELSE ParseLoop(f, r.end - 1, [sp EXCEPT !.minlen = r.val])
    ELSE IF c = 46 \/ c = 38 THEN                                                             \* '.' '&'
         IF At(f, i + 2) = 0 THEN [res |-> "bad_format", spec |-> sp, next |-> i + 2, maxread |-> i + 2]
         ELSE LET r == StrToL(f, i + 2) IN
              IF ~r.modelled THEN [res |-> "unmodelled", spec |-> sp, next |-> i, maxread |-> r.end]
              ELSE ParseLoop(f, r.end - 1, IF c = 46 THEN [sp EXCEPT !.prec = r.val] ELSE [sp EXCEPT !.argidx = r.val])
    ELSE [res |-> "bad_format", spec |-> sp, next |-> i + 1, maxread |-> i + 1]
ParseField(f, open) == ParseLoop(f, open, Spec0)       \* open: index of the '{'

(* ---- chunks --------------------------------------------------------------*)
App(bytes)    == IF bytes = <<>> THEN <<>> ELSE << [k |-> "a", b |-> bytes] >>      \* append(data, size)
Rep(ch, n)    == IF n <= 0 THEN <<>> ELSE << [k |-> "c", ch |-> ch, n |-> n] >>     \* append_char(ch, count)
ChunkBytes(c) == IF c.k = "a" THEN c.b ELSE [j \in 1..c.n |-> c.ch]
RECURSIVE Flatten(_, _)
Flatten(cs, k) == IF k > Len(cs) THEN <<>> ELSE ChunkBytes(cs[k]) \o Flatten(cs, k + 1)
Bytes(cs) == Flatten(cs, 1)

(* ---- fetch_prefix(): literal text from p up to the next field ------------*)
(* result: [chunks, stop] ; stop is the index of the '{' opening a field,   *)
(* or Len(f)+1.                                                             *)
RECURSIVE LitScan(_, _, _, _)
LitScan(f, p, nx, acc) ==
    LET c == At(f, nx) IN
    IF c = 0 THEN [chunks |-> acc \o App(SubSeq(f, p, nx - 1)), stop |-> nx]
    ELSE IF c = 123 THEN                                           \* '{'
         IF At(f, nx + 1) # 123 THEN [chunks |-> acc \o App(SubSeq(f, p, nx - 1)), stop |-> nx]
         ELSE LitScan(f, nx + 1, nx + 2, acc \o App(SubSeq(f, p, nx - 1)))
    ELSE IF c = 125 /\ At(f, nx + 1) = 125 THEN                    \* "}}"
         LitScan(f, nx + 1, nx + 2, acc \o App(SubSeq(f, p, nx - 1)))
    ELSE LitScan(f, p, nx + 1, acc)
Literal(f, p) == LitScan(f, p, p, <<>>)

(* ---- integers to digits ----------------------------------------------------*)
DivSmall(m, r) ==                 \* <<quotient limbs, remainder>> of a 4-limb number by r <= 36
    LET c4 == m[4]                    q4 == c4 \div r  r4 == c4 % r
        c3 == r4 * 65536 + m[3]       q3 == c3 \div r  r3 == c3 % r
        c2 == r3 * 65536 + m[2]       q2 == c2 \div r  r2 == c2 % r
        c1 == r2 * 65536 + m[1]       q1 == c1 \div r  r1 == c1 % r
    IN << <<q1, q2, q3, q4>>, r1 >>
DigitChar(d, upper) == IF d < 10 THEN 48 + d ELSE IF upper THEN 65 + d - 10 ELSE 97 + d - 10
RECURSIVE DigitsNZ(_, _, _)
DigitsNZ(m, r, upper) == IF m = <<0, 0, 0, 0>> THEN <<>>
                         ELSE LET qr == DivSmall(m, r) IN DigitsNZ(qr[1], r, upper) \o <<DigitChar(qr[2], upper)>>
Digits(m, r, upper) == IF m = <<0, 0, 0, 0>> THEN <<48>> ELSE DigitsNZ(m, r, upper)

(* canonical text of an integer in any base 2..36 (C12) *)
IntText(v, base, upper) == (IF IsNeg(v) THEN <<45>> ELSE <<>>) \o Digits(v.m, base, upper)

(* ---- rendering ---------------------------------------------------------*)
PadChar(sp) == IF sp.pad # 0 THEN sp.pad ELSE 32

(* strings and booleans: cut to the precision, then pad (left-aligned by default) *)
RenderText(sp, text) ==
    LET t == IF sp.prec >= 0 /\ Len(text) > sp.prec THEN SubSeq(text, 1, sp.prec) ELSE text
        n == (IF sp.minlen < 0 THEN 0 ELSE sp.minlen) - Len(t) IN      \* a negative width never pads
    IF sp.minlen > Len(t)
    THEN IF sp.align = "right" THEN Rep(PadChar(sp), n) \o App(t) ELSE App(t) \o Rep(PadChar(sp), n)
    ELSE App(t)

Radix(sp) == CASE sp.digit = "hex" -> 16 [] sp.digit = "HEX" -> 16 [] sp.digit = "oct" -> 8
               [] sp.digit = "bin" -> 2 [] OTHER -> 10
NumPrefix(sp, v) ==                \* sign, then radix prefix (none for zero)
    (IF IsNeg(v) THEN Rep(45, 1) ELSE IF sp.plus THEN Rep(43, 1) ELSE <<>>)
    \o (IF v.m # <<0, 0, 0, 0>> /\ sp.prefix
        THEN CASE sp.digit = "hex" -> App(<<48, 120>>) [] sp.digit = "HEX" -> App(<<48, 88>>)
               [] sp.digit = "bin" -> App(<<48, 98>>)  [] sp.digit = "oct" -> Rep(48, 1) [] OTHER -> <<>>
        ELSE <<>>)
RenderNumber(sp, v) ==
    LET ds   == Digits(v.m, Radix(sp), sp.digit = "HEX")
        pre  == NumPrefix(sp, v)
        psz  == (IF sp.minlen < 0 THEN 0 ELSE sp.minlen) - Len(ds) - Len(Bytes(pre))
        pad  == Rep(PadChar(sp), psz)
    IN IF sp.numpad THEN pre \o pad \o App(ds)                     \* zero padding: between prefix and digits
       ELSE IF sp.align = "left" THEN pre \o App(ds) \o pad
       ELSE pad \o pre \o App(ds)                                  \* numbers are right-aligned by default

FFFD8 == <<239, 191, 189>>
(* character class: UTF-8 of the code point; U+FFFD outside 0..10FFFF.     *)
(* Padding is a documented contract violation (assertion).                 *)
RenderChar(sp, v) ==
    IF sp.minlen # 0 \/ sp.pad # 0 THEN [res |-> "assert", chunks |-> <<>>]
    ELSE IF ~IsNeg(v) /\ IsSmall(v) /\ SmallVal(v) <= MaxCP
         THEN [res |-> "ok", chunks |-> App(Enc8(SmallVal(v)))]
         ELSE [res |-> "ok", chunks |-> App(FFFD8)]

IntTypes == {"i8", "u8", "i16", "u16", "i32", "u32", "i64", "u64", "char", "wchar", "c16", "c32", "c8"}

(* an argument: [t |-> type, v |-> wide integer] / [t |-> "str", b |-> bytes] / *)
(* [t |-> "bool", v |-> 0|1] / [t |-> "nullstr"]                               *)
RenderArg(sp, a) ==
    IF a.t \in IntTypes THEN
        IF sp.digit = "char"
        THEN IF a.t = "c8" THEN (IF sp.minlen # 0 \/ sp.pad # 0 THEN [res |-> "assert", chunks |-> <<>>]
                                 ELSE [res |-> "ok", chunks |-> Rep(SmallVal(a.v), 1)])
             ELSE RenderChar(sp, a.v)
        ELSE [res |-> "ok", chunks |-> RenderNumber(sp, a.v)]
    ELSE IF a.t = "str" THEN [res |-> "ok", chunks |-> RenderText(sp, a.b)]
    ELSE IF a.t = "bool" THEN [res |-> "ok", chunks |-> RenderText(sp, IF a.v = 1 THEN <<116, 114, 117, 101>> ELSE <<102, 97, 108, 115, 101>>)]
    ELSE IF a.t = "nullstr" THEN [res |-> "ok", chunks |-> <<>>]
    ELSE [res |-> "unmodelled", chunks |-> <<>>]

(* ---- apply_format(): the whole call --------------------------------------*)
(* result: [res, chunks, maxread]; res in "ok", "bad_format", "out_of_range", *)
(* "assert", "unmodelled"                                                    *)
RECURSIVE Apply(_, _, _, _, _, _)
Apply(f, args, p, idx, acc, mr) ==
    LET lit == Literal(f, p)
        acc1 == acc \o lit.chunks
        mr1 == Max2(mr, Min2(lit.stop + 1, Len(f) + 1)) IN
    IF At(f, lit.stop) = 0 THEN [res |-> "ok", chunks |-> acc1, maxread |-> Max2(mr, lit.stop)]
    ELSE IF Len(args) = 0 THEN [res |-> "out_of_range", chunks |-> acc1, maxread |-> mr1]
    ELSE LET pf == ParseField(f, lit.stop)
             mr2 == Max2(mr1, pf.maxread) IN
         IF pf.res # "ok" THEN [res |-> pf.res, chunks |-> acc1, maxread |-> mr2]
         ELSE LET seqn == pf.spec.argidx < 0
                  id   == IF seqn THEN idx ELSE pf.spec.argidx - 1         \* 0-based; &0 is out of range
              IN IF id < 0 \/ id >= Len(args) THEN [res |-> "out_of_range", chunks |-> acc1, maxread |-> mr2]
                 ELSE LET r == RenderArg(pf.spec, args[id + 1]) IN
                      IF r.res # "ok" THEN [res |-> r.res, chunks |-> acc1, maxread |-> mr2]
                      ELSE Apply(f, args, pf.next, IF seqn THEN idx + 1 ELSE idx, acc1 \o r.chunks, mr2)
Format(f, args) == Apply(f, args, 1, 0, <<>>, 1)

(* ---- sinks (C17) ---------------------------------------------------------*)
(* ST::format(validation, ...): concatenate, then validate as UTF-8 *)
StringSink(cs, mode) == Conv("utf8", "utf8", mode, TRUE, Bytes(cs))
(* ST::printf to a FILE, ST::writef to a narrow ostream: the bytes *)
ByteSink(cs) == Bytes(cs)
(* ST::format_latin_1: the bytes read as Latin-1 *)
Latin1Sink(cs) == Conv("latin1", "utf8", "check", TRUE, Bytes(cs)).out
(* what the statement requires of a wide sink: the transcoding of the bytes *)
WideSink(cs, enc) == Conv("utf8", enc, "check", TRUE, Bytes(cs))

(* the wide sinks as written: append() chunks are transcoded one by one and   *)
(* append_char() units are cast - used only to classify the known finding   *)
RECURSIVE WideAsWritten(_, _, _)
WideAsWritten(cs, enc, k) ==
    IF k > Len(cs) THEN [res |-> "ok", out |-> <<>>]
    ELSE LET c == cs[k]
             r == IF c.k = "a" THEN Conv("utf8", enc, "check", TRUE, c.b)
                  ELSE [res |-> "ok", out |-> <<>>]        \* cast units: not compared
             rest == WideAsWritten(cs, enc, k + 1)
         IN IF r.res # "ok" THEN r ELSE IF rest.res # "ok" THEN rest ELSE [res |-> "ok", out |-> r.out \o rest.out]
(* a chunk boundary falls inside a multi-byte character, or a repeated unit is not ASCII *)
ChunkSplitsCharacter(cs) ==
    \/ \E k \in 1..Len(cs) : cs[k].k = "c" /\ cs[k].ch >= 128
    \/ \E k \in 1..Len(cs) : cs[k].k = "a" /\ AnyBad(Items("utf8", cs[k].b))
=============================================================================
