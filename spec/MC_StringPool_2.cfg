SPECIFICATION Spec
CONSTANTS
  Slots = {1, 2}
  ConstOps = {"copy", "substr", "left", "right", "trim", "trim_left", "trim_right", "to_upper", "to_lower", "replace", "before_first", "after_first", "before_last", "after_last", "concat", "concat_self", "split", "tokenize", "to_utf8", "to_utf16", "to_utf32", "to_wchar", "to_latin_1", "to_std", "format", "formatf", "stream", "observe"}
  SetForms = {"cstr", "buflv", "bufrv", "std", "wide", "tobuffer", "extract", "fromvalidated", "substbad"}
  EmitEdges = FALSE
  WithFaults = TRUE
  WithThrows = TRUE
VIEW View
INVARIANTS TypeOK StorageDisjoint
PROPERTIES OnlyNamedObjectsChange ReadsNeverMutate FailuresChangeNothingElse
ACTION_CONSTRAINT Emit
CHECK_DEADLOCK FALSE
