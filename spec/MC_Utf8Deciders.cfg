SPECIFICATION Spec
CONSTANTS
  MaxLen8 = 4
  MaxLen16 = 3
  MaxLen32 = 3
INVARIANTS Deciders8Agree RepairIsValid8 Isolation DecisionSameForAllTargets RepairRevalidates OneReplacementPerBadUnit
CHECK_DEADLOCK FALSE
