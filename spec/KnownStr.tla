------------------------------ MODULE KnownStr ------------------------------
(***************************************************************************)
(* Known-finding classifier for the string operations (see Known.tla for   *)
(* the contract).                                                          *)
(***************************************************************************)
EXTENDS Unicode, StringOps

(* D15: the C-string overload of split re-validates every piece as UTF-8   *)
(* when the splitter contains a byte >= 0x80, so it throws unicode_error    *)
(* where the ST::string overload with the same bytes returns the pieces.   *)
(* Matches only: C-string forms, non-ASCII splitter, and some piece of the *)
(* reference result that is not valid UTF-8.                               *)
CStringSplitForms == {"split(z,max,cs)", "split(c8z,max,cs)", "split(z)"}
KF_StrOps(ev, g) ==
    IF /\ ev.e = "split" /\ g.res = "unicode_error"
       /\ \A j \in 1..Len(g.f) : g.f[j] \in CStringSplitForms
       /\ \E j \in 1..Len(ev.sep) : ev.sep[j] >= 128
       /\ LET ps == Split(ev.s, ev.sep, ev.max, ev.ci = 1)
          IN \E k \in 1..Len(ps) : AnyBad(Items("utf8", ps[k]))
    THEN "D15-split-cstr-revalidates-pieces"
    ELSE "none"
=============================================================================
