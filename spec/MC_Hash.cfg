SPECIFICATION Spec
