---- MODULE TraceFormat_TTrace_1790693148 ----
EXTENDS Sequences, TLCExt, Toolbox, TraceFormat, Naturals, TLC

_expression ==
    LET TraceFormat_TEExpression == INSTANCE TraceFormat_TEExpression
    IN TraceFormat_TEExpression!expression
----

_trace ==
    LET TraceFormat_TETrace == INSTANCE TraceFormat_TETrace
    IN TraceFormat_TETrace!trace
----

_inv ==
    ~(
        TLCGet("level") = Len(_TETrace)
        /\
        ndec = (114)
        /\
        book = ([nrej |-> 0, kfn |-> <<>>, rej |-> <<>>, cn |-> <<>>])
        /\
        plat = ([dflt |-> "check", wchar_bits |-> 32])
        /\
        l = (116)
        /\
        done = (FALSE)
    )
----

_init ==
    /\ ndec = _TETrace[1].ndec
    /\ book = _TETrace[1].book
    /\ l = _TETrace[1].l
    /\ plat = _TETrace[1].plat
    /\ done = _TETrace[1].done
----

_next ==
    /\ \E i,j \in DOMAIN _TETrace:
        /\ \/ /\ j = i + 1
              /\ i = TLCGet("level")
        /\ ndec  = _TETrace[i].ndec
        /\ ndec' = _TETrace[j].ndec
        /\ book  = _TETrace[i].book
        /\ book' = _TETrace[j].book
        /\ l  = _TETrace[i].l
        /\ l' = _TETrace[j].l
        /\ plat  = _TETrace[i].plat
        /\ plat' = _TETrace[j].plat
        /\ done  = _TETrace[i].done
        /\ done' = _TETrace[j].done

\* Uncomment the ASSUME below to write the states of the error trace
\* to the given file in Json format. Note that you can pass any tuple
\* to `JsonSerialize`. For example, a sub-sequence of _TETrace.
    \* ASSUME
    \*     LET J == INSTANCE Json
    \*         IN J!JsonSerialize("TraceFormat_TTrace_1790693148.json", _TETrace)

=============================================================================

 Note that you can extract this module `TraceFormat_TEExpression`
  to a dedicated file to reuse `expression` (the module in the 
  dedicated `TraceFormat_TEExpression.tla` file takes precedence 
  over the module `TraceFormat_TEExpression` below).

---- MODULE TraceFormat_TEExpression ----
EXTENDS Sequences, TLCExt, Toolbox, TraceFormat, Naturals, TLC

expression == 
    [
        \* To hide variables of the `TraceFormat` spec from the error trace,
        \* remove the variables below.  The trace will be written in the order
        \* of the fields of this record.
        ndec |-> ndec
        ,book |-> book
        ,l |-> l
        ,plat |-> plat
        ,done |-> done
        
        \* Put additional constant-, state-, and action-level expressions here:
        \* ,_stateNumber |-> _TEPosition
        \* ,_ndecUnchanged |-> ndec = ndec'
        
        \* Format the `ndec` variable as Json value.
        \* ,_ndecJson |->
        \*     LET J == INSTANCE Json
        \*     IN J!ToJson(ndec)
        
        \* Lastly, you may build expressions over arbitrary sets of states by
        \* leveraging the _TETrace operator.  For example, this is how to
        \* count the number of times a spec variable changed up to the current
        \* state in the trace.
        \* ,_ndecModCount |->
        \*     LET F[s \in DOMAIN _TETrace] ==
        \*         IF s = 1 THEN 0
        \*         ELSE IF _TETrace[s].ndec # _TETrace[s-1].ndec
        \*             THEN 1 + F[s-1] ELSE F[s-1]
        \*     IN F[_TEPosition - 1]
    ]

=============================================================================



Parsing and semantic processing can take forever if the trace below is long.
 In this case, it is advised to uncomment the module below to deserialize the
 trace from a generated binary file.

\*
\*---- MODULE TraceFormat_TETrace ----
\*EXTENDS IOUtils, TraceFormat, TLC
\*
\*trace == IODeserialize("TraceFormat_TTrace_1790693148.bin", TRUE)
\*
\*=============================================================================
\*

---- MODULE TraceFormat_TETrace ----
EXTENDS TraceFormat, TLC

trace == 
    <<
    ([ndec |-> 0,book |-> [nrej |-> 0, kfn |-> <<>>, rej |-> <<>>, cn |-> <<>>],plat |-> [dflt |-> "none", wchar_bits |-> 0],l |-> 1,done |-> FALSE]),
    ([ndec |-> 0,book |-> [nrej |-> 0, kfn |-> <<>>, rej |-> <<>>, cn |-> <<>>],plat |-> [dflt |-> "check", wchar_bits |-> 32],l |-> 2,done |-> FALSE]),
    ([ndec |-> 1,book |-> [nrej |-> 0, kfn |-> <<>>, rej |-> <<>>, cn |-> <<>>],plat |-> [dflt |-> "check", wchar_bits |-> 32],l |-> 3,done |-> FALSE]),
    ([ndec |-> 2,book |-> [nrej |-> 0, kfn |-> <<>>, rej |-> <<>>, cn |-> <<>>],plat |-> [dflt |-> "check", wchar_bits |-> 32],l |-> 4,done |-> FALSE]),
    ([ndec |-> 3,book |-> [nrej |-> 0, kfn |-> <<>>, rej |-> <<>>, cn |-> <<>>],plat |-> [dflt |-> "check", wchar_bits |-> 32],l |-> 5,done |-> FALSE]),
    ([ndec |-> 4,book |-> [nrej |-> 0, kfn |-> <<>>, rej |-> <<>>, cn |-> <<>>],plat |-> [dflt |-> "check", wchar_bits |-> 32],l |-> 6,done |-> FALSE]),
    ([ndec |-> 5,book |-> [nrej |-> 0, kfn |-> <<>>, rej |-> <<>>, cn |-> <<>>],plat |-> [dflt |-> "check", wchar_bits |-> 32],l |-> 7,done |-> FALSE]),
    ([ndec |-> 6,book |-> [nrej |-> 0, kfn |-> <<>>, rej |-> <<>>, cn |-> <<>>],plat |-> [dflt |-> "check", wchar_bits |-> 32],l |-> 8,done |-> FALSE]),
    ([ndec |-> 7,book |-> [nrej |-> 0, kfn |-> <<>>, rej |-> <<>>, cn |-> <<>>],plat |-> [dflt |-> "check", wchar_bits |-> 32],l |-> 9,done |-> FALSE]),
    ([ndec |-> 8,book |-> [nrej |-> 0, kfn |-> <<>>, rej |-> <<>>, cn |-> <<>>],plat |-> [dflt |-> "check", wchar_bits |-> 32],l |-> 10,done |-> FALSE]),
    ([ndec |-> 9,book |-> [nrej |-> 0, kfn |-> <<>>, rej |-> <<>>, cn |-> <<>>],plat |-> [dflt |-> "check", wchar_bits |-> 32],l |-> 11,done |-> FALSE]),
    ([ndec |-> 10,book |-> [nrej |-> 0, kfn |-> <<>>, rej |-> <<>>, cn |-> <<>>],plat |-> [dflt |-> "check", wchar_bits |-> 32],l |-> 12,done |-> FALSE]),
    ([ndec |-> 11,book |-> [nrej |-> 0, kfn |-> <<>>, rej |-> <<>>, cn |-> <<>>],plat |-> [dflt |-> "check", wchar_bits |-> 32],l |-> 13,done |-> FALSE]),
    ([ndec |-> 12,book |-> [nrej |-> 0, kfn |-> <<>>, rej |-> <<>>, cn |-> <<>>],plat |-> [dflt |-> "check", wchar_bits |-> 32],l |-> 14,done |-> FALSE]),
    ([ndec |-> 13,book |-> [nrej |-> 0, kfn |-> <<>>, rej |-> <<>>, cn |-> <<>>],plat |-> [dflt |-> "check", wchar_bits |-> 32],l |-> 15,done |-> FALSE]),
    ([ndec |-> 14,book |-> [nrej |-> 0, kfn |-> <<>>, rej |-> <<>>, cn |-> <<>>],plat |-> [dflt |-> "check", wchar_bits |-> 32],l |-> 16,done |-> FALSE]),
    ([ndec |-> 15,book |-> [nrej |-> 0, kfn |-> <<>>, rej |-> <<>>, cn |-> <<>>],plat |-> [dflt |-> "check", wchar_bits |-> 32],l |-> 17,done |-> FALSE]),
    ([ndec |-> 16,book |-> [nrej |-> 0, kfn |-> <<>>, rej |-> <<>>, cn |-> <<>>],plat |-> [dflt |-> "check", wchar_bits |-> 32],l |-> 18,done |-> FALSE]),
    ([ndec |-> 17,book |-> [nrej |-> 0, kfn |-> <<>>, rej |-> <<>>, cn |-> <<>>],plat |-> [dflt |-> "check", wchar_bits |-> 32],l |-> 19,done |-> FALSE]),
    ([ndec |-> 18,book |-> [nrej |-> 0, kfn |-> <<>>, rej |-> <<>>, cn |-> <<>>],plat |-> [dflt |-> "check", wchar_bits |-> 32],l |-> 20,done |-> FALSE]),
    ([ndec |-> 19,book |-> [nrej |-> 0, kfn |-> <<>>, rej |-> <<>>, cn |-> <<>>],plat |-> [dflt |-> "check", wchar_bits |-> 32],l |-> 21,done |-> FALSE]),
    ([ndec |-> 20,book |-> [nrej |-> 0, kfn |-> <<>>, rej |-> <<>>, cn |-> <<>>],plat |-> [dflt |-> "check", wchar_bits |-> 32],l |-> 22,done |-> FALSE]),
    ([ndec |-> 21,book |-> [nrej |-> 0, kfn |-> <<>>, rej |-> <<>>, cn |-> <<>>],plat |-> [dflt |-> "check", wchar_bits |-> 32],l |-> 23,done |-> FALSE]),
    ([ndec |-> 22,book |-> [nrej |-> 0, kfn |-> <<>>, rej |-> <<>>, cn |-> <<>>],plat |-> [dflt |-> "check", wchar_bits |-> 32],l |-> 24,done |-> FALSE]),
    ([ndec |-> 23,book |-> [nrej |-> 0, kfn |-> <<>>, rej |-> <<>>, cn |-> <<>>],plat |-> [dflt |-> "check", wchar_bits |-> 32],l |-> 25,done |-> FALSE]),
    ([ndec |-> 24,book |-> [nrej |-> 0, kfn |-> <<>>, rej |-> <<>>, cn |-> <<>>],plat |-> [dflt |-> "check", wchar_bits |-> 32],l |-> 26,done |-> FALSE]),
    ([ndec |-> 25,book |-> [nrej |-> 0, kfn |-> <<>>, rej |-> <<>>, cn |-> <<>>],plat |-> [dflt |-> "check", wchar_bits |-> 32],l |-> 27,done |-> FALSE]),
    ([ndec |-> 26,book |-> [nrej |-> 0, kfn |-> <<>>, rej |-> <<>>, cn |-> <<>>],plat |-> [dflt |-> "check", wchar_bits |-> 32],l |-> 28,done |-> FALSE]),
    ([ndec |-> 27,book |-> [nrej |-> 0, kfn |-> <<>>, rej |-> <<>>, cn |-> <<>>],plat |-> [dflt |-> "check", wchar_bits |-> 32],l |-> 29,done |-> FALSE]),
    ([ndec |-> 28,book |-> [nrej |-> 0, kfn |-> <<>>, rej |-> <<>>, cn |-> <<>>],plat |-> [dflt |-> "check", wchar_bits |-> 32],l |-> 30,done |-> FALSE]),
    ([ndec |-> 29,book |-> [nrej |-> 0, kfn |-> <<>>, rej |-> <<>>, cn |-> <<>>],plat |-> [dflt |-> "check", wchar_bits |-> 32],l |-> 31,done |-> FALSE]),
    ([ndec |-> 30,book |-> [nrej |-> 0, kfn |-> <<>>, rej |-> <<>>, cn |-> <<>>],plat |-> [dflt |-> "check", wchar_bits |-> 32],l |-> 32,done |-> FALSE]),
    ([ndec |-> 31,book |-> [nrej |-> 0, kfn |-> <<>>, rej |-> <<>>, cn |-> <<>>],plat |-> [dflt |-> "check", wchar_bits |-> 32],l |-> 33,done |-> FALSE]),
    ([ndec |-> 32,book |-> [nrej |-> 0, kfn |-> <<>>, rej |-> <<>>, cn |-> <<>>],plat |-> [dflt |-> "check", wchar_bits |-> 32],l |-> 34,done |-> FALSE]),
    ([ndec |-> 33,book |-> [nrej |-> 0, kfn |-> <<>>, rej |-> <<>>, cn |-> <<>>],plat |-> [dflt |-> "check", wchar_bits |-> 32],l |-> 35,done |-> FALSE]),
    ([ndec |-> 34,book |-> [nrej |-> 0, kfn |-> <<>>, rej |-> <<>>, cn |-> <<>>],plat |-> [dflt |-> "check", wchar_bits |-> 32],l |-> 36,done |-> FALSE]),
    ([ndec |-> 35,book |-> [nrej |-> 0, kfn |-> <<>>, rej |-> <<>>, cn |-> <<>>],plat |-> [dflt |-> "check", wchar_bits |-> 32],l |-> 37,done |-> FALSE]),
    ([ndec |-> 36,book |-> [nrej |-> 0, kfn |-> <<>>, rej |-> <<>>, cn |-> <<>>],plat |-> [dflt |-> "check", wchar_bits |-> 32],l |-> 38,done |-> FALSE]),
    ([ndec |-> 37,book |-> [nrej |-> 0, kfn |-> <<>>, rej |-> <<>>, cn |-> <<>>],plat |-> [dflt |-> "check", wchar_bits |-> 32],l |-> 39,done |-> FALSE]),
    ([ndec |-> 38,book |-> [nrej |-> 0, kfn |-> <<>>, rej |-> <<>>, cn |-> <<>>],plat |-> [dflt |-> "check", wchar_bits |-> 32],l |-> 40,done |-> FALSE]),
    ([ndec |-> 39,book |-> [nrej |-> 0, kfn |-> <<>>, rej |-> <<>>, cn |-> <<>>],plat |-> [dflt |-> "check", wchar_bits |-> 32],l |-> 41,done |-> FALSE]),
    ([ndec |-> 40,book |-> [nrej |-> 0, kfn |-> <<>>, rej |-> <<>>, cn |-> <<>>],plat |-> [dflt |-> "check", wchar_bits |-> 32],l |-> 42,done |-> FALSE]),
    ([ndec |-> 41,book |-> [nrej |-> 0, kfn |-> <<>>, rej |-> <<>>, cn |-> <<>>],plat |-> [dflt |-> "check", wchar_bits |-> 32],l |-> 43,done |-> FALSE]),
    ([ndec |-> 42,book |-> [nrej |-> 0, kfn |-> <<>>, rej |-> <<>>, cn |-> <<>>],plat |-> [dflt |-> "check", wchar_bits |-> 32],l |-> 44,done |-> FALSE]),
    ([ndec |-> 43,book |-> [nrej |-> 0, kfn |-> <<>>, rej |-> <<>>, cn |-> <<>>],plat |-> [dflt |-> "check", wchar_bits |-> 32],l |-> 45,done |-> FALSE]),
    ([ndec |-> 44,book |-> [nrej |-> 0, kfn |-> <<>>, rej |-> <<>>, cn |-> <<>>],plat |-> [dflt |-> "check", wchar_bits |-> 32],l |-> 46,done |-> FALSE]),
    ([ndec |-> 45,book |-> [nrej |-> 0, kfn |-> <<>>, rej |-> <<>>, cn |-> <<>>],plat |-> [dflt |-> "check", wchar_bits |-> 32],l |-> 47,done |-> FALSE]),
    ([ndec |-> 46,book |-> [nrej |-> 0, kfn |-> <<>>, rej |-> <<>>, cn |-> <<>>],plat |-> [dflt |-> "check", wchar_bits |-> 32],l |-> 48,done |-> FALSE]),
    ([ndec |-> 47,book |-> [nrej |-> 0, kfn |-> <<>>, rej |-> <<>>, cn |-> <<>>],plat |-> [dflt |-> "check", wchar_bits |-> 32],l |-> 49,done |-> FALSE]),
    ([ndec |-> 48,book |-> [nrej |-> 0, kfn |-> <<>>, rej |-> <<>>, cn |-> <<>>],plat |-> [dflt |-> "check", wchar_bits |-> 32],l |-> 50,done |-> FALSE]),
    ([ndec |-> 49,book |-> [nrej |-> 0, kfn |-> <<>>, rej |-> <<>>, cn |-> <<>>],plat |-> [dflt |-> "check", wchar_bits |-> 32],l |-> 51,done |-> FALSE]),
    ([ndec |-> 50,book |-> [nrej |-> 0, kfn |-> <<>>, rej |-> <<>>, cn |-> <<>>],plat |-> [dflt |-> "check", wchar_bits |-> 32],l |-> 52,done |-> FALSE]),
    ([ndec |-> 51,book |-> [nrej |-> 0, kfn |-> <<>>, rej |-> <<>>, cn |-> <<>>],plat |-> [dflt |-> "check", wchar_bits |-> 32],l |-> 53,done |-> FALSE]),
    ([ndec |-> 52,book |-> [nrej |-> 0, kfn |-> <<>>, rej |-> <<>>, cn |-> <<>>],plat |-> [dflt |-> "check", wchar_bits |-> 32],l |-> 54,done |-> FALSE]),
    ([ndec |-> 53,book |-> [nrej |-> 0, kfn |-> <<>>, rej |-> <<>>, cn |-> <<>>],plat |-> [dflt |-> "check", wchar_bits |-> 32],l |-> 55,done |-> FALSE]),
    ([ndec |-> 54,book |-> [nrej |-> 0, kfn |-> <<>>, rej |-> <<>>, cn |-> <<>>],plat |-> [dflt |-> "check", wchar_bits |-> 32],l |-> 56,done |-> FALSE]),
    ([ndec |-> 55,book |-> [nrej |-> 0, kfn |-> <<>>, rej |-> <<>>, cn |-> <<>>],plat |-> [dflt |-> "check", wchar_bits |-> 32],l |-> 57,done |-> FALSE]),
    ([ndec |-> 56,book |-> [nrej |-> 0, kfn |-> <<>>, rej |-> <<>>, cn |-> <<>>],plat |-> [dflt |-> "check", wchar_bits |-> 32],l |-> 58,done |-> FALSE]),
    ([ndec |-> 57,book |-> [nrej |-> 0, kfn |-> <<>>, rej |-> <<>>, cn |-> <<>>],plat |-> [dflt |-> "check", wchar_bits |-> 32],l |-> 59,done |-> FALSE]),
    ([ndec |-> 58,book |-> [nrej |-> 0, kfn |-> <<>>, rej |-> <<>>, cn |-> <<>>],plat |-> [dflt |-> "check", wchar_bits |-> 32],l |-> 60,done |-> FALSE]),
    ([ndec |-> 59,book |-> [nrej |-> 0, kfn |-> <<>>, rej |-> <<>>, cn |-> <<>>],plat |-> [dflt |-> "check", wchar_bits |-> 32],l |-> 61,done |-> FALSE]),
    ([ndec |-> 60,book |-> [nrej |-> 0, kfn |-> <<>>, rej |-> <<>>, cn |-> <<>>],plat |-> [dflt |-> "check", wchar_bits |-> 32],l |-> 62,done |-> FALSE]),
    ([ndec |-> 61,book |-> [nrej |-> 0, kfn |-> <<>>, rej |-> <<>>, cn |-> <<>>],plat |-> [dflt |-> "check", wchar_bits |-> 32],l |-> 63,done |-> FALSE]),
    ([ndec |-> 62,book |-> [nrej |-> 0, kfn |-> <<>>, rej |-> <<>>, cn |-> <<>>],plat |-> [dflt |-> "check", wchar_bits |-> 32],l |-> 64,done |-> FALSE]),
    ([ndec |-> 63,book |-> [nrej |-> 0, kfn |-> <<>>, rej |-> <<>>, cn |-> <<>>],plat |-> [dflt |-> "check", wchar_bits |-> 32],l |-> 65,done |-> FALSE]),
    ([ndec |-> 64,book |-> [nrej |-> 0, kfn |-> <<>>, rej |-> <<>>, cn |-> <<>>],plat |-> [dflt |-> "check", wchar_bits |-> 32],l |-> 66,done |-> FALSE]),
    ([ndec |-> 65,book |-> [nrej |-> 0, kfn |-> <<>>, rej |-> <<>>, cn |-> <<>>],plat |-> [dflt |-> "check", wchar_bits |-> 32],l |-> 67,done |-> FALSE]),
    ([ndec |-> 66,book |-> [nrej |-> 0, kfn |-> <<>>, rej |-> <<>>, cn |-> <<>>],plat |-> [dflt |-> "check", wchar_bits |-> 32],l |-> 68,done |-> FALSE]),
    ([ndec |-> 67,book |-> [nrej |-> 0, kfn |-> <<>>, rej |-> <<>>, cn |-> <<>>],plat |-> [dflt |-> "check", wchar_bits |-> 32],l |-> 69,done |-> FALSE]),
    ([ndec |-> 68,book |-> [nrej |-> 0, kfn |-> <<>>, rej |-> <<>>, cn |-> <<>>],plat |-> [dflt |-> "check", wchar_bits |-> 32],l |-> 70,done |-> FALSE]),
    ([ndec |-> 69,book |-> [nrej |-> 0, kfn |-> <<>>, rej |-> <<>>, cn |-> <<>>],plat |-> [dflt |-> "check", wchar_bits |-> 32],l |-> 71,done |-> FALSE]),
    ([ndec |-> 70,book |-> [nrej |-> 0, kfn |-> <<>>, rej |-> <<>>, cn |-> <<>>],plat |-> [dflt |-> "check", wchar_bits |-> 32],l |-> 72,done |-> FALSE]),
    ([ndec |-> 71,book |-> [nrej |-> 0, kfn |-> <<>>, rej |-> <<>>, cn |-> <<>>],plat |-> [dflt |-> "check", wchar_bits |-> 32],l |-> 73,done |-> FALSE]),
    ([ndec |-> 72,book |-> [nrej |-> 0, kfn |-> <<>>, rej |-> <<>>, cn |-> <<>>],plat |-> [dflt |-> "check", wchar_bits |-> 32],l |-> 74,done |-> FALSE]),
    ([ndec |-> 73,book |-> [nrej |-> 0, kfn |-> <<>>, rej |-> <<>>, cn |-> <<>>],plat |-> [dflt |-> "check", wchar_bits |-> 32],l |-> 75,done |-> FALSE]),
    ([ndec |-> 74,book |-> [nrej |-> 0, kfn |-> <<>>, rej |-> <<>>, cn |-> <<>>],plat |-> [dflt |-> "check", wchar_bits |-> 32],l |-> 76,done |-> FALSE]),
    ([ndec |-> 75,book |-> [nrej |-> 0, kfn |-> <<>>, rej |-> <<>>, cn |-> <<>>],plat |-> [dflt |-> "check", wchar_bits |-> 32],l |-> 77,done |-> FALSE]),
    ([ndec |-> 76,book |-> [nrej |-> 0, kfn |-> <<>>, rej |-> <<>>, cn |-> <<>>],plat |-> [dflt |-> "check", wchar_bits |-> 32],l |-> 78,done |-> FALSE]),
    ([ndec |-> 77,book |-> [nrej |-> 0, kfn |-> <<>>, rej |-> <<>>, cn |-> <<>>],plat |-> [dflt |-> "check", wchar_bits |-> 32],l |-> 79,done |-> FALSE]),
    ([ndec |-> 78,book |-> [nrej |-> 0, kfn |-> <<>>, rej |-> <<>>, cn |-> <<>>],plat |-> [dflt |-> "check", wchar_bits |-> 32],l |-> 80,done |-> FALSE]),
    ([ndec |-> 79,book |-> [nrej |-> 0, kfn |-> <<>>, rej |-> <<>>, cn |-> <<>>],plat |-> [dflt |-> "check", wchar_bits |-> 32],l |-> 81,done |-> FALSE]),
    ([ndec |-> 80,book |-> [nrej |-> 0, kfn |-> <<>>, rej |-> <<>>, cn |-> <<>>],plat |-> [dflt |-> "check", wchar_bits |-> 32],l |-> 82,done |-> FALSE]),
    ([ndec |-> 81,book |-> [nrej |-> 0, kfn |-> <<>>, rej |-> <<>>, cn |-> <<>>],plat |-> [dflt |-> "check", wchar_bits |-> 32],l |-> 83,done |-> FALSE]),
    ([ndec |-> 82,book |-> [nrej |-> 0, kfn |-> <<>>, rej |-> <<>>, cn |-> <<>>],plat |-> [dflt |-> "check", wchar_bits |-> 32],l |-> 84,done |-> FALSE]),
    ([ndec |-> 83,book |-> [nrej |-> 0, kfn |-> <<>>, rej |-> <<>>, cn |-> <<>>],plat |-> [dflt |-> "check", wchar_bits |-> 32],l |-> 85,done |-> FALSE]),
    ([ndec |-> 84,book |-> [nrej |-> 0, kfn |-> <<>>, rej |-> <<>>, cn |-> <<>>],plat |-> [dflt |-> "check", wchar_bits |-> 32],l |-> 86,done |-> FALSE]),
    ([ndec |-> 85,book |-> [nrej |-> 0, kfn |-> <<>>, rej |-> <<>>, cn |-> <<>>],plat |-> [dflt |-> "check", wchar_bits |-> 32],l |-> 87,done |-> FALSE]),
    ([ndec |-> 86,book |-> [nrej |-> 0, kfn |-> <<>>, rej |-> <<>>, cn |-> <<>>],plat |-> [dflt |-> "check", wchar_bits |-> 32],l |-> 88,done |-> FALSE]),
    ([ndec |-> 87,book |-> [nrej |-> 0, kfn |-> <<>>, rej |-> <<>>, cn |-> <<>>],plat |-> [dflt |-> "check", wchar_bits |-> 32],l |-> 89,done |-> FALSE]),
    ([ndec |-> 88,book |-> [nrej |-> 0, kfn |-> <<>>, rej |-> <<>>, cn |-> <<>>],plat |-> [dflt |-> "check", wchar_bits |-> 32],l |-> 90,done |-> FALSE]),
    ([ndec |-> 89,book |-> [nrej |-> 0, kfn |-> <<>>, rej |-> <<>>, cn |-> <<>>],plat |-> [dflt |-> "check", wchar_bits |-> 32],l |-> 91,done |-> FALSE]),
    ([ndec |-> 90,book |-> [nrej |-> 0, kfn |-> <<>>, rej |-> <<>>, cn |-> <<>>],plat |-> [dflt |-> "check", wchar_bits |-> 32],l |-> 92,done |-> FALSE]),
    ([ndec |-> 91,book |-> [nrej |-> 0, kfn |-> <<>>, rej |-> <<>>, cn |-> <<>>],plat |-> [dflt |-> "check", wchar_bits |-> 32],l |-> 93,done |-> FALSE]),
    ([ndec |-> 92,book |-> [nrej |-> 0, kfn |-> <<>>, rej |-> <<>>, cn |-> <<>>],plat |-> [dflt |-> "check", wchar_bits |-> 32],l |-> 94,done |-> FALSE]),
    ([ndec |-> 93,book |-> [nrej |-> 0, kfn |-> <<>>, rej |-> <<>>, cn |-> <<>>],plat |-> [dflt |-> "check", wchar_bits |-> 32],l |-> 95,done |-> FALSE]),
    ([ndec |-> 94,book |-> [nrej |-> 0, kfn |-> <<>>, rej |-> <<>>, cn |-> <<>>],plat |-> [dflt |-> "check", wchar_bits |-> 32],l |-> 96,done |-> FALSE]),
    ([ndec |-> 95,book |-> [nrej |-> 0, kfn |-> <<>>, rej |-> <<>>, cn |-> <<>>],plat |-> [dflt |-> "check", wchar_bits |-> 32],l |-> 97,done |-> FALSE]),
    ([ndec |-> 96,book |-> [nrej |-> 0, kfn |-> <<>>, rej |-> <<>>, cn |-> <<>>],plat |-> [dflt |-> "check", wchar_bits |-> 32],l |-> 98,done |-> FALSE]),
    ([ndec |-> 97,book |-> [nrej |-> 0, kfn |-> <<>>, rej |-> <<>>, cn |-> <<>>],plat |-> [dflt |-> "check", wchar_bits |-> 32],l |-> 99,done |-> FALSE]),
    ([ndec |-> 98,book |-> [nrej |-> 0, kfn |-> <<>>, rej |-> <<>>, cn |-> <<>>],plat |-> [dflt |-> "check", wchar_bits |-> 32],l |-> 100,done |-> FALSE]),
    ([ndec |-> 99,book |-> [nrej |-> 0, kfn |-> <<>>, rej |-> <<>>, cn |-> <<>>],plat |-> [dflt |-> "check", wchar_bits |-> 32],l |-> 101,done |-> FALSE]),
    ([ndec |-> 100,book |-> [nrej |-> 0, kfn |-> <<>>, rej |-> <<>>, cn |-> <<>>],plat |-> [dflt |-> "check", wchar_bits |-> 32],l |-> 102,done |-> FALSE]),
    ([ndec |-> 101,book |-> [nrej |-> 0, kfn |-> <<>>, rej |-> <<>>, cn |-> <<>>],plat |-> [dflt |-> "check", wchar_bits |-> 32],l |-> 103,done |-> FALSE]),
    ([ndec |-> 102,book |-> [nrej |-> 0, kfn |-> <<>>, rej |-> <<>>, cn |-> <<>>],plat |-> [dflt |-> "check", wchar_bits |-> 32],l |-> 104,done |-> FALSE]),
    ([ndec |-> 103,book |-> [nrej |-> 0, kfn |-> <<>>, rej |-> <<>>, cn |-> <<>>],plat |-> [dflt |-> "check", wchar_bits |-> 32],l |-> 105,done |-> FALSE]),
    ([ndec |-> 104,book |-> [nrej |-> 0, kfn |-> <<>>, rej |-> <<>>, cn |-> <<>>],plat |-> [dflt |-> "check", wchar_bits |-> 32],l |-> 106,done |-> FALSE]),
    ([ndec |-> 105,book |-> [nrej |-> 0, kfn |-> <<>>, rej |-> <<>>, cn |-> <<>>],plat |-> [dflt |-> "check", wchar_bits |-> 32],l |-> 107,done |-> FALSE]),
    ([ndec |-> 106,book |-> [nrej |-> 0, kfn |-> <<>>, rej |-> <<>>, cn |-> <<>>],plat |-> [dflt |-> "check", wchar_bits |-> 32],l |-> 108,done |-> FALSE]),
    ([ndec |-> 107,book |-> [nrej |-> 0, kfn |-> <<>>, rej |-> <<>>, cn |-> <<>>],plat |-> [dflt |-> "check", wchar_bits |-> 32],l |-> 109,done |-> FALSE]),
    ([ndec |-> 108,book |-> [nrej |-> 0, kfn |-> <<>>, rej |-> <<>>, cn |-> <<>>],plat |-> [dflt |-> "check", wchar_bits |-> 32],l |-> 110,done |-> FALSE]),
    ([ndec |-> 109,book |-> [nrej |-> 0, kfn |-> <<>>, rej |-> <<>>, cn |-> <<>>],plat |-> [dflt |-> "check", wchar_bits |-> 32],l |-> 111,done |-> FALSE]),
    ([ndec |-> 110,book |-> [nrej |-> 0, kfn |-> <<>>, rej |-> <<>>, cn |-> <<>>],plat |-> [dflt |-> "check", wchar_bits |-> 32],l |-> 112,done |-> FALSE]),
    ([ndec |-> 111,book |-> [nrej |-> 0, kfn |-> <<>>, rej |-> <<>>, cn |-> <<>>],plat |-> [dflt |-> "check", wchar_bits |-> 32],l |-> 113,done |-> FALSE]),
    ([ndec |-> 112,book |-> [nrej |-> 0, kfn |-> <<>>, rej |-> <<>>, cn |-> <<>>],plat |-> [dflt |-> "check", wchar_bits |-> 32],l |-> 114,done |-> FALSE]),
    ([ndec |-> 113,book |-> [nrej |-> 0, kfn |-> <<>>, rej |-> <<>>, cn |-> <<>>],plat |-> [dflt |-> "check", wchar_bits |-> 32],l |-> 115,done |-> FALSE]),
    ([ndec |-> 114,book |-> [nrej |-> 0, kfn |-> <<>>, rej |-> <<>>, cn |-> <<>>],plat |-> [dflt |-> "check", wchar_bits |-> 32],l |-> 116,done |-> FALSE])
    >>
----


=============================================================================

---- CONFIG TraceFormat_TTrace_1790693148 ----

INVARIANT
    _inv

CHECK_DEADLOCK
    \* CHECK_DEADLOCK off because of PROPERTY or INVARIANT above.
    FALSE

INIT
    _init

NEXT
    _next

CONSTANT
    _TETrace <- _trace

ALIAS
    _expression
=============================================================================
\* Generated on Tue Sep 29 14:45:55 UTC 2026