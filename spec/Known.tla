------------------------------- MODULE Known -------------------------------
(***************************************************************************)
(* Classification of rejected events against the catalogue of known        *)
(* findings (/verif/known_findings.json).  Each operator returns the id of *)
(* the finding whose *specific* failing input class the rejected event     *)
(* belongs to, or "none".  bin/check suppresses a rejection only when the  *)
(* id is listed as open in known_findings.json for the property being      *)
(* checked; anything else - including a different violation of the same    *)
(* property - is reported.                                                 *)
(***************************************************************************)
EXTENDS Unicode

(* D13: on a platform where wchar_t has the width of the other encoding,   *)
(* the wchar aliases (utf32_to_wchar / wchar_to_utf32, or the UTF-16 pair  *)
(* on 16-bit wchar_t) copy the units and ignore the validation mode: an    *)
(* invalid unit is neither rejected under check_validity nor replaced      *)
(* under substitute_invalid.  Matches only: same-width alias, identity     *)
(* output, input with an invalid unit.                                     *)
KF_Conv(src, dst, rawsrc, rawdst, modes, sub, u, res, out, plat) ==
    IF /\ src = dst /\ src \in {"utf16", "utf32"}
       /\ rawsrc # rawdst /\ "wchar" \in {rawsrc, rawdst}
       /\ res = "ok" /\ out = u
       /\ AnyBad(Items(src, u))
    THEN "D13-samewidth-wchar-alias-ignores-validation"
    ELSE "none"

KF_ConvAbnormal(ev) == "none"
=============================================================================
