---- MODULE ConvImpl_TTrace_1790732606 ----
EXTENDS Sequences, TLCExt, Toolbox, Naturals, TLC, ConvImpl

_expression ==
    LET ConvImpl_TEExpression == INSTANCE ConvImpl_TEExpression
    IN ConvImpl_TEExpression!expression
----

_trace ==
    LET ConvImpl_TETrace == INSTANCE ConvImpl_TETrace
    IN ConvImpl_TETrace!trace
----

_inv ==
    ~(
        TLCGet("level") = Len(_TETrace)
        /\
        u = (<<55296>>)
        /\
        enc = ("utf16")
    )
----

_init ==
    /\ u = _TETrace[1].u
    /\ enc = _TETrace[1].enc
----

_next ==
    /\ \E i,j \in DOMAIN _TETrace:
        /\ \/ /\ j = i + 1
              /\ i = TLCGet("level")
        /\ u  = _TETrace[i].u
        /\ u' = _TETrace[j].u
        /\ enc  = _TETrace[i].enc
        /\ enc' = _TETrace[j].enc

\* Uncomment the ASSUME below to write the states of the error trace
\* to the given file in Json format. Note that you can pass any tuple
\* to `JsonSerialize`. For example, a sub-sequence of _TETrace.
    \* ASSUME
    \*     LET J == INSTANCE Json
    \*         IN J!JsonSerialize("ConvImpl_TTrace_1790732606.json", _TETrace)

=============================================================================

 Note that you can extract this module `ConvImpl_TEExpression`
  to a dedicated file to reuse `expression` (the module in the 
  dedicated `ConvImpl_TEExpression.tla` file takes precedence 
  over the module `ConvImpl_TEExpression` below).

---- MODULE ConvImpl_TEExpression ----
EXTENDS Sequences, TLCExt, Toolbox, Naturals, TLC, ConvImpl

expression == 
    [
        \* To hide variables of the `ConvImpl` spec from the error trace,
        \* remove the variables below.  The trace will be written in the order
        \* of the fields of this record.
        u |-> u
        ,enc |-> enc
        
        \* Put additional constant-, state-, and action-level expressions here:
        \* ,_stateNumber |-> _TEPosition
        \* ,_uUnchanged |-> u = u'
        
        \* Format the `u` variable as Json value.
        \* ,_uJson |->
        \*     LET J == INSTANCE Json
        \*     IN J!ToJson(u)
        
        \* Lastly, you may build expressions over arbitrary sets of states by
        \* leveraging the _TETrace operator.  For example, this is how to
        \* count the number of times a spec variable changed up to the current
        \* state in the trace.
        \* ,_uModCount |->
        \*     LET F[s \in DOMAIN _TETrace] ==
        \*         IF s = 1 THEN 0
        \*         ELSE IF _TETrace[s].u # _TETrace[s-1].u
        \*             THEN 1 + F[s-1] ELSE F[s-1]
        \*     IN F[_TEPosition - 1]
    ]

=============================================================================



Parsing and semantic processing can take forever if the trace below is long.
 In this case, it is advised to uncomment the module below to deserialize the
 trace from a generated binary file.

\*
\*---- MODULE ConvImpl_TETrace ----
\*EXTENDS IOUtils, TLC, ConvImpl
\*
\*trace == IODeserialize("ConvImpl_TTrace_1790732606.bin", TRUE)
\*
\*=============================================================================
\*

---- MODULE ConvImpl_TETrace ----
EXTENDS TLC, ConvImpl

trace == 
    <<
    ([u |-> <<>>,enc |-> "utf16"]),
    ([u |-> <<55296>>,enc |-> "utf16"])
    >>
----


=============================================================================

---- CONFIG ConvImpl_TTrace_1790732606 ----
CONSTANTS
    MaxLen8 = 4
    MaxLen16 = 3
    MaxLen32 = 3
    Slack = 1

INVARIANT
    _inv

CHECK_DEADLOCK
    \* CHECK_DEADLOCK off because of PROPERTY or INVARIANT above.
    FALSE

INIT
    _init

NEXT
    _next

CONSTANT
    _TETrace <- _trace

ALIAS
    _expression
=============================================================================
\* Generated on Wed Sep 30 01:43:26 UTC 2026