------------------------------ MODULE Threads ------------------------------
(***************************************************************************)
(* C20: concurrent use needs no locking.                                   *)
(*                                                                         *)
(* N threads run operations with no synchronisation between them.  An      *)
(* operation of the library is modelled by its FOOTPRINT, as a short       *)
(* sequence of memory accesses:                                            *)
(*     read the shared (immutable) input                                   *)
(*     write the intermediate result to scratch storage                    *)
(*     read it back                                                        *)
(*     write the final result to an object the calling thread owns         *)
(* What the property requires of the code is where "scratch" lives: it     *)
(* must be storage of the call (stack, or a heap block only this call      *)
(* sees) - ScratchMode = "perCall".  A function-local static buffer, a     *)
(* lazily initialised table or a value cached in the shared object makes   *)
(* it one location all threads touch - ScratchMode = "sharedStatic", the   *)
(* negative control, for which TLC finds both a conflicting access and an  *)
(* interleaving in which a thread returns another thread's bytes.          *)
(* Every interleaving of the accesses is explored.                         *)
(***************************************************************************)
EXTENDS Naturals, Sequences, FiniteSets

CONSTANTS Threads, NOps, ScratchMode

VARIABLES pc,        \* thread -> <<operation index, next access 1..4>>  (operation index NOps+1 = finished)
          mem,       \* location -> value last written
          lastAcc,   \* location -> set of <<thread, "r"|"w">> accesses made so far
          results,   \* thread -> sequence of results obtained
          conflict   \* a pair of conflicting accesses by different threads has occurred
vars == <<pc, mem, lastAcc, results, conflict>>

Shared == <<"input", 0>>
Scratch(t) == IF ScratchMode = "perCall" THEN <<"scratch", t>> ELSE <<"scratch", 0>>
OwnRes(t) == <<"result", t>>
Locs == {Shared} \cup {Scratch(t) : t \in Threads} \cup {OwnRes(t) : t \in Threads}

(* the value operation k of thread t computes from the shared input *)
F(t, k) == <<"f", t, k>>

Init == /\ pc = [t \in Threads |-> <<1, 1>>]
        /\ mem = [x \in Locs |-> IF x = Shared THEN "in" ELSE "none"]
        /\ lastAcc = [x \in Locs |-> {}]
        /\ results = [t \in Threads |-> <<>>]
        /\ conflict = FALSE

Conflicts(t, x, kind) == \E a \in lastAcc[x] : a[1] # t /\ (kind = "w" \/ a[2] = "w")
Access(t, x, kind) == /\ lastAcc' = [lastAcc EXCEPT ![x] = @ \cup {<<t, kind>>}]
                      /\ conflict' = (conflict \/ Conflicts(t, x, kind))

Step(t) ==
    LET k == pc[t][1]  a == pc[t][2] IN
    /\ k <= NOps
    /\ CASE a = 1 -> /\ Access(t, Shared, "r") /\ UNCHANGED <<mem, results>>
         [] a = 2 -> /\ Access(t, Scratch(t), "w") /\ mem' = [mem EXCEPT ![Scratch(t)] = F(t, k)] /\ UNCHANGED results
         [] a = 3 -> /\ Access(t, Scratch(t), "r") /\ mem' = [mem EXCEPT ![OwnRes(t)] = mem[Scratch(t)]] /\ UNCHANGED results
         [] a = 4 -> /\ Access(t, OwnRes(t), "w") /\ results' = [results EXCEPT ![t] = Append(@, mem[OwnRes(t)])] /\ UNCHANGED mem
    /\ pc' = [pc EXCEPT ![t] = IF a = 4 THEN <<k + 1, 1>> ELSE <<k, a + 1>>]

Next == \E t \in Threads : Step(t)
Spec == Init /\ [][Next]_vars

(* no two threads ever make conflicting accesses to one location *)
NoConflictingAccess == ~conflict
(* every thread obtains exactly the results it obtains when run alone *)
ResultsEqualSequential == \A t \in Threads : \A k \in 1..Len(results[t]) : results[t][k] = F(t, k)
(* shared inputs are never written *)
SharedIsReadOnly == mem[Shared] = "in" /\ \A a \in lastAcc[Shared] : a[2] = "r"
=============================================================================
