------------------------------ MODULE ConvImpl ------------------------------
(***************************************************************************)
(* Implementation-shaped model of the transcoders of st_utf_conv_priv.h    *)
(* (model level of C03, and of C02's "same decision in every conversion"). *)
(* Every conversion runs TWO separately written passes over the input: a   *)
(* MEASURE pass that sizes the result buffer and a CONVERT pass that fills *)
(* it.  Both walk the input with the extractors of the code, whose         *)
(* look-ahead reads are guarded by the end pointer.  This module writes    *)
(* the extractors with the guards in the order the code evaluates them     *)
(* and records the set of input indices every call READS, so that TLC can  *)
(* check, on every unit sequence over class-representative alphabets:      *)
(*   ReadsInRange           no index outside 1..Len(input) is ever read    *)
(*   Progress               every extraction consumes at least one unit    *)
(*   WrittenEqualsMeasured  the convert pass writes exactly the number of  *)
(*                          units the measure pass announced               *)
(*   RefinesConv            outcome and units are those the reference      *)
(*                          relation Unicode!ConvAllowed permits           *)
(* Slack > 0 weakens the end-pointer guards by that many units (the        *)
(* negative control: ReadsInRange must fail).                              *)
(***************************************************************************)
EXTENDS Unicode, TLC

CONSTANTS MaxLen8, MaxLen16, MaxLen32, Slack

Alpha8  == {0, 65, 127, 128, 191, 192, 194, 223, 224, 237, 239, 240, 244, 247, 248, 255}
Alpha16 == {65, 233, 8364, 55295, 55296, 56319, 56320, 57343, 57344, 65535}
Alpha32 == {<<0, 65>>, <<0, 255>>, <<0, 2047>>, <<0, 2048>>, <<0, 55296>>, <<0, 57343>>, <<0, 65535>>, <<1, 0>>,
            <<16, 65535>>, <<17, 0>>, <<32767, 65535>>, <<65535, 65535>>}

VARIABLES enc, u
vars == <<enc, u>>
Init == enc \in {"utf8", "utf16", "utf32"} /\ u = <<>>
Extend(A, n) == Len(u) < n /\ \E a \in A : u' = Append(u, a)
Next == /\ \/ enc = "utf8"  /\ Extend(Alpha8, MaxLen8)
           \/ enc = "utf16" /\ Extend(Alpha16, MaxLen16)
           \/ enc = "utf32" /\ Extend(Alpha32, MaxLen32)
        /\ UNCHANGED enc
Spec == Init /\ [][Next]_vars

---------------------------------------------------------------------------
(* A read of index j: inside the input it yields the unit, outside it is    *)
(* recorded (and yields a continuation-like value, the worst case).         *)
At8(s, j)  == IF j <= Len(s) THEN s[j] ELSE 128
At16(s, j) == IF j <= Len(s) THEN s[j] ELSE 56320
IsC(b) == b \div 64 = 2                          \* (b & 0xC0) == 0x80
ErrCP == 4194304                                 \* error_char(): bit 0x400000 set, above every code point

(* extract_utf8(utf8, end): [cp, n, reads].  `utf8 + k > end` is            *)
(* `i + k - 1 > Len(s)` for the 1-based index i; conditions are evaluated   *)
(* left to right and stop at the first true one, exactly as || does.        *)
Extract8(s, i) ==
    LET b == s[i]
        E(reads) == [cp |-> ErrCP, n |-> 1, reads |-> reads]
    IN
    IF b < 128 THEN [cp |-> b, n |-> 1, reads |-> {i}]
    ELSE IF b \div 32 = 6 THEN
         IF i + 1 > Len(s) + Slack THEN E({i})
         ELSE IF ~IsC(At8(s, i+1)) THEN E({i, i+1})
         ELSE [cp |-> (b % 32) * 64 + (At8(s, i+1) % 64), n |-> 2, reads |-> {i, i+1}]
    ELSE IF b \div 16 = 14 THEN
         IF i + 2 > Len(s) + Slack THEN E({i})
         ELSE IF ~IsC(At8(s, i+1)) THEN E({i, i+1})
         ELSE IF ~IsC(At8(s, i+2)) THEN E({i, i+1, i+2})
         ELSE [cp |-> (b % 16) * 4096 + (At8(s, i+1) % 64) * 64 + (At8(s, i+2) % 64), n |-> 3, reads |-> {i, i+1, i+2}]
    ELSE IF b \div 8 = 30 THEN
         IF i + 3 > Len(s) + Slack THEN E({i})
         ELSE IF ~IsC(At8(s, i+1)) THEN E({i, i+1})
         ELSE IF ~IsC(At8(s, i+2)) THEN E({i, i+1, i+2})
         ELSE IF ~IsC(At8(s, i+3)) THEN E({i, i+1, i+2, i+3})
         ELSE [cp |-> (b % 8) * 262144 + (At8(s, i+1) % 64) * 4096 + (At8(s, i+2) % 64) * 64 + (At8(s, i+3) % 64),
               n |-> 4, reads |-> {i, i+1, i+2, i+3}]
    ELSE E({i})

(* extract_utf16(utf16, end): `utf16 + 1 >= end` is `i + 1 > Len(s)` *)
Extract16(s, i) ==
    LET b == s[i]
        E(reads) == [cp |-> ErrCP, n |-> 1, reads |-> reads]
    IN
    IF b < 55296 \/ b > 57343 THEN [cp |-> b, n |-> 1, reads |-> {i}]
    ELSE IF i + 1 > Len(s) + Slack THEN E({i})
    ELSE LET c == At16(s, i+1) IN
         IF b < 56320
         THEN IF c >= 56320 /\ c <= 57343 THEN [cp |-> 65536 + (b % 1024) * 1024 + (c % 1024), n |-> 2, reads |-> {i, i+1}]
              ELSE E({i, i+1})
         ELSE IF c >= 55296 /\ c <= 56319 THEN [cp |-> 65536 + (b % 1024) + (c % 1024) * 1024, n |-> 2, reads |-> {i, i+1}]
              ELSE E({i, i+1})

(* a UTF-32 unit <<hi, lo>> as a code point, or ErrCP-like "too big" *)
Extract32(s, i) == [cp |-> IF s[i][1] > 16 THEN ErrCP + 1 ELSE s[i][1] * 65536 + s[i][2], n |-> 1, reads |-> {i}]

Extract(e, s, i) == CASE e = "utf8" -> Extract8(s, i) [] e = "utf16" -> Extract16(s, i) [] e = "utf32" -> Extract32(s, i)

(* utf8_measure / utf16_measure / one unit for UTF-32: also applied to the  *)
(* error marker, which is above 0x10FFFF and therefore sized as a           *)
(* replacement character                                                    *)
MeasureCP(dst, cp) ==
    CASE dst = "utf8"  -> IF cp < 128 THEN 1 ELSE IF cp < 2048 THEN 2 ELSE IF cp < 65536 THEN 3 ELSE IF cp <= MaxCP THEN 4 ELSE 3
      [] dst = "utf16" -> IF cp < 65536 \/ cp > MaxCP THEN 1 ELSE 2
      [] dst = "utf32" -> 1

(* write_utf8 / write_utf16 / store: [ok, units]; ~ok is conversion_error_t::out_of_range *)
(* (a decoded value is stored into a UTF-32 result as it is)                                *)
WriteCP(dst, cp) == IF cp <= MaxCP \/ dst = "utf32" THEN [ok |-> TRUE, units |-> Enc(dst, cp)] ELSE [ok |-> FALSE, units |-> <<>>]
Subst(dst) == Enc(dst, ReplCP)

(* ---- pass 1: measure ----------------------------------------------------*)
RECURSIVE MeasureFrom(_, _, _, _)
MeasureFrom(src, dst, s, i) ==
    IF i > Len(s) THEN [size |-> 0, reads |-> {}, steps |-> 0]
    ELSE LET x == Extract(src, s, i)
             r == MeasureFrom(src, dst, s, i + x.n)
         IN [size |-> MeasureCP(dst, x.cp) + r.size, reads |-> x.reads \cup r.reads, steps |-> r.steps + 1]

(* ---- pass 2: convert ----------------------------------------------------*)
(* [res, out, reads]: res = "ok" | "unicode_error".  An extraction error or *)
(* an unrepresentable value is an error under check_validity and a          *)
(* replacement character otherwise.                                         *)
RECURSIVE ConvertFrom(_, _, _, _, _)
ConvertFrom(src, dst, mode, s, i) ==
    IF i > Len(s) THEN [res |-> "ok", out |-> <<>>, reads |-> {}]
    ELSE LET x == Extract(src, s, i)
             w == IF x.cp >= ErrCP THEN [ok |-> FALSE, units |-> <<>>] ELSE WriteCP(dst, x.cp)
         IN IF ~w.ok /\ mode = "check"
            THEN [res |-> "unicode_error", out |-> <<>>, reads |-> x.reads]
            ELSE LET r == ConvertFrom(src, dst, mode, s, i + x.n)
                 IN [res |-> r.res,
                     out |-> (IF w.ok THEN w.units ELSE Subst(dst)) \o r.out,
                     reads |-> x.reads \cup r.reads]

Targets == {"utf8", "utf16", "utf32"} \ {enc}
ModesM == {"check", "substitute", "assume"}

---------------------------------------------------------------------------
ReadsInRange ==
    \A dst \in Targets :
        /\ MeasureFrom(enc, dst, u, 1).reads \subseteq 1..Len(u)
        /\ \A m \in ModesM : ConvertFrom(enc, dst, m, u, 1).reads \subseteq 1..Len(u)

Progress == \A i \in 1..Len(u) : Extract(enc, u, i).n >= 1 /\ i + Extract(enc, u, i).n - 1 <= Len(u) + Slack

WrittenEqualsMeasured ==
    \A dst \in Targets : \A m \in ModesM :
        LET c == ConvertFrom(enc, dst, m, u, 1) IN
        c.res = "ok" => Len(c.out) = MeasureFrom(enc, dst, u, 1).size

RefinesConv ==
    \A dst \in Targets : \A m \in ModesM :
        LET c == ConvertFrom(enc, dst, m, u, 1) IN
        ConvAllowed(enc, dst, m, TRUE, u, c.res, c.out)
=============================================================================
