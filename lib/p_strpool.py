"""C04, C18 (and the string part of C19): ST::string pool.  Spec: StringPool.tla, MC_StringPool.tla;
trace spec: TraceStrPool.tla; executor: exec_strpool."""
import json
import os

import schedules
import vlib
from runner import Check

CONST_OPS = ["copy", "substr", "left", "right", "trim", "trim_left", "trim_right", "to_upper", "to_lower", "replace", "before_first",
             "after_first", "before_last", "after_last", "concat", "concat_self", "split", "tokenize", "to_utf8", "to_utf16", "to_utf32",
             "to_wchar", "to_latin_1", "to_std", "format", "formatf", "stream", "observe"]
CFG = """SPECIFICATION Spec
CONSTANTS
  Slots = {%s}
  ConstOps = {%s}
  SetForms = {"cstr", "buflv", "bufrv", "std", "wide", "tobuffer", "extract", "fromvalidated", "substbad"}
  EmitEdges = TRUE
  WithFaults = %s
  WithThrows = TRUE
VIEW View
ACTION_CONSTRAINT Emit
CHECK_DEADLOCK FALSE
"""


def op_line(a):
    return "%s %d %d %s" % (a["n"], a["a"], a["b"], a["c"])


def make_schedule(nslots, faults, path, maxlen=30):
    slots = ", ".join(str(i) for i in range(1, nslots + 1))
    ops = ", ".join('"%s"' % o for o in CONST_OPS)
    edges, stats = schedules.emit_edges("MC_StringPool", CFG % (slots, ops, "TRUE" if faults else "FALSE"),
                                        "strp%d%s" % (nslots, "f" if faults else ""))
    init = "D." * nslots
    # among fault edges prefer the one that keeps the value (what the code does unless the old block is released first)
    walks, total = schedules.covering_walks(edges, init, lambda e: op_line(e["a"]), lambda e: 0 if e["f"] == e["t"] else 1, maxlen)
    with open(path, "w") as f:
        for w in walks:
            f.write("reset\n")
            for e in w:
                f.write(op_line(e["a"]) + "\n")
    return {"model_edges": len(edges), "distinct_state_op_pairs": total, "schedules": len(walks),
            "steps": sum(len(w) for w in walks), "model_states": stats["distinct"]}


class StrPoolCheck(Check):
    technique = ("TLA+ value-semantics specification of a pool of ST::string objects (StringPool.tla) model-checked by TLC; TLC's explored "
                 "state graph turned into operation schedules covering every (state, operation) edge - 27 const-operation families with "
                 "results dropped or kept alive, every constructor/assignment/set/+= form, throwing variants, allocation failures - replayed "
                 "on real ST::string objects; TLC trace validation of the recorded projection of ALL live objects (bytes, size, storage owner, "
                 "data-pointer token) and of every returned object after every step, values against the StringOps reference functions")
    design_ref = "DESIGN.md section 5 (C04, C18, C19)"
    level_note = ("trusted: TLC/SANY, Json module, executor recording code and allocation shim (ownership classification of data pointers), "
                  "ASan/UBSan; bounded: 2-3 pool slots (+1 spare), size classes empty/short/long around the small-string limit, ASCII test "
                  "texts with separators, schedules of <= 30 steps plus seeded random walks of 40 steps")
    assumptions = ["moved-from and self-move-assigned strings hold an unspecified (valid) value",
                   "returned wide buffers (to_utf16/32/wchar) are checked for size and ownership here, their units in C01",
                   "string_view results (view()) alias by design and are not treated as returned objects",
                   "streams/FILE* that received partial output before an exception are outside C18 (not ST objects)"]
    gen_info = None

    def schedule(self, tier, faults):
        os.makedirs(os.path.join(vlib.OUT, "sched"), exist_ok=True)
        n = 2 if tier == "quick" else 3
        p = os.path.join(vlib.OUT, "sched", "strpool-%d%s-%d.txt" % (n, "f" if faults else "", os.getpid()))
        self.gen_info = make_schedule(n, faults, p)
        return p

    def models(self, tier):
        return [("MC_StringPool", "MC_StringPool_2" if tier == "quick" else "MC_StringPool_3")]

    def jobs(self, tier, seed):
        e = vlib.build("exec_strpool")
        sched = self.schedule(tier, False)
        n = 8 if tier == "quick" else 32
        J = [vlib.Job("%s-sched-%d" % (self.pid.lower(), i), e, ["--schedule", sched, "--shard", "%d/%d" % (i, n)], "TraceStrPool") for i in range(n)]
        for i in range(8 if tier == "quick" else 32):
            J.append(vlib.Job("%s-rand-%d" % (self.pid.lower(), i), e, ["--random", "400" if tier == "quick" else "4000", "--seed", str(seed * 100 + i)], "TraceStrPool"))
        for j in J:
            j.sample = 3
        return J

    def replay_jobs(self, rej):
        if not rej.get("exe") or not rej.get("args"):
            return None
        args = list(rej["args"])
        try:
            d = json.loads(rej["event"])
            x = d.get("x", d.get("during", {}).get("x"))
            if x is not None and "--exec" not in args:
                args += ["--exec", str(x)]
        except Exception:
            pass
        return [vlib.Job("replay-strpool", vlib.build("exec_strpool"), args, "TraceStrPool")]

    def describe(self, rej):
        try:
            d = json.loads(rej["event"])
            if d.get("e") == "Abnormal":
                return "abnormal termination (%s: %s) during %s" % (d.get("kind"), d.get("detail"), json.dumps(d.get("during"))[:300])
            post = [(p["s"], p.get("n"), p.get("stor"), p.get("addr"), p.get("bad"), bytes(p.get("u", [])).decode("latin1")[:24]) for p in d.get("post", []) if p["st"] == "live"]
            res = [(r["own"], r["n"], bytes(r.get("u", [])).decode("latin1")[:24]) for r in d.get("res", [])][:4]
            return "%s: step %s a=%s b=%s form=%s exc=%s fault=%s argkept=%s results(own,size,bytes)=%s -> live strings (slot,size,stor,addr,bad,bytes)=%s live blocks=%s badfree=%s" % (
                rej.get("what"), d.get("e"), d.get("a"), d.get("b"), d.get("form"), d.get("exc"), d.get("fault"), d.get("argkept"), res, post,
                d.get("live"), d.get("badfree"))
        except Exception:
            return (rej.get("event") or "")[:300]

    def extra_coverage(self, tier, agg):
        return {"schedule_generation": self.gen_info}


class C04(StrPoolCheck):
    pid = "C04"
    level_text = ("TLC explores the abstract string pool exhaustively (2 slots quick / 3 thorough; empty/short/long/result/moved-from classes) "
                  "and checks that reads never mutate and only named objects change; every explored (state, operation) edge is executed on "
                  "real ST::string objects - each const-operation family with its results dropped or kept alive, followed by mutation, "
                  "reassignment or destruction of source or result - and after every step TLC decides the recorded projection of all live "
                  "objects (bytes, size, data pointer, storage owner) and the ownership and value of every returned object")
    rule = ("operation schedules covering every edge of the TLC state graph of MC_StringPool (<= 30 steps each): 27 const-operation families "
            "(copy, slicing, trimming, case mapping, replace, before/after, concatenation, split, tokenize, conversions to every width, "
            "std::string, format, stream insertion, non-returning members) x source class x result dropped/kept, all constructor / "
            "assignment / set / += / clear / move forms incl. self-assignment, self-append and arguments that point into the target's own "
            "storage (s = s.c_str() + k, ...); buffer arguments passed by reference are observed after the call; seeded random walks of "
            "40 steps on 3 slots")
    exhaustive_note = "every (state, operation) edge of the 3-slot pool model is executed"


class C18(StrPoolCheck):
    pid = "C18"
    level_text = ("every throwing entry point is an action of the pool specification whose effect is 'nothing changed' (target, rvalue "
                  "argument, all bystanders, heap); TLC explores them inside longer histories, every edge is executed on real objects with "
                  "malformed UTF-8/16/32 data in every constructor, operator=, set (lvalue and rvalue buffers, STL forms, wide forms), "
                  "+= and from_* form, and TLC decides the recorded pre/post projections; malformed wide text inserted into string_stream "
                  "is decided by the stream trace specification")
    rule = ("the schedules of C04 (which contain the throwing variants: constructor, set:cstr/buflv/bufrv/std/wide, += with malformed data "
            "of every size class in every target class, to_buffer() into a caller's buffer, operator>> into a non-empty string) plus the "
            "string_stream random walks with malformed wide text (short, long, and behind a clean ASCII head); state after the "
            "caught exception must equal the state before, the rvalue argument must still hold its value, the heap must balance")

    def jobs(self, tier, seed):
        J = StrPoolCheck.jobs(self, tier, seed)
        e = vlib.build("exec_stream")
        for i in range(4 if tier == "quick" else 16):
            J.append(vlib.Job("c18-strm-%d" % i, e, ["--random", "300" if tier == "quick" else "3000", "--seed", str(seed * 100 + 40 + i)], "TraceStream"))
        # a kept ST::float_formatter object: a call refused with bad_format leaves the text it held (TraceFormat.tla)
        J.append(vlib.Job("c18-ffreuse", vlib.build("exec_format"), ["--gen", "ffreuse"], "TraceFormat"))
        return J

    def replay_jobs(self, rej):
        if rej.get("spec") == "TraceStream":
            import p_stream
            return p_stream.StreamCheck().replay_jobs(rej)
        if rej.get("spec") == "TraceFormat":
            return [vlib.Job("replay-format", vlib.build("exec_format"), rej["args"], "TraceFormat")]
        return StrPoolCheck.replay_jobs(self, rej)

    def describe(self, rej):
        if rej.get("spec") == "TraceStream":
            import p_stream
            return p_stream.StreamCheck().describe(rej)
        if rej.get("spec") == "TraceFormat":
            return (rej.get("event") or "")[:400]
        return StrPoolCheck.describe(self, rej)


def fault_jobs(check, tier, seed):
    e = vlib.build("exec_strpool")
    sched = check.schedule(tier, True)
    n = 8 if tier == "quick" else 32
    J = [vlib.Job("c19-strp-sched-%d" % i, e, ["--schedule", sched, "--shard", "%d/%d" % (i, n)], "TraceStrPool") for i in range(n)]
    for i in range(4 if tier == "quick" else 16):
        J.append(vlib.Job("c19-strp-rand-%d" % i, e, ["--random", "400" if tier == "quick" else "4000", "--faults",
                                                      "--seed", str(seed * 100 + 80 + i)], "TraceStrPool"))
    return J


CHECKS = {"C04": C04, "C18": C18}
