"""C06-C09: comparison, searching, slicing, split/tokenize/replace.
Spec: StringOps.tla (+ MC_StringOps, MC_Compare); trace spec: TraceStrOps.tla; executor: exec_strops."""
import json
import os

import vlib
from runner import Check


def num(x):
    v = x["m"][0] + (x["m"][1] << 16) + (x["m"][2] << 32) + (x["m"][3] << 48)
    return -v if x["s"] < 0 else v


def hx(b):
    return "".join("%02x" % v for v in b) or "-"


def replay_line(d):
    e = d["e"]
    ci = d.get("ci", 0)
    if e == "cmp":
        return "cmp %s %s" % (hx(d["a"]), hx(d["b"]))
    if e == "cmpn":
        return "cmpn %s %s %d" % (hx(d["a"]), hx(d["b"]), num(d["n"]))
    if e == "case":
        return "case %s" % hx(d["s"])
    if e == "cmpsized":
        return "cmpsized %s %d %s %d %d %d" % (hx(d["pa"]), num(d["ls"]), hx(d["pb"]), num(d["rs"]), d["hasmax"], num(d["mx"]))
    if e == "find":
        return "find %s %s %d %d" % (hx(d["h"]), hx(d["n"]), num(d["start"]), ci)
    if e == "findlast":
        return "findlast %s %s %d %d" % (hx(d["h"]), hx(d["n"]), num(d["max"]), ci)
    if e == "affix":
        return "affix %s %s %d" % (hx(d["s"]), hx(d["p"]), ci)
    if e == "substr":
        return "substr %s %d %d" % (hx(d["s"]), num(d["start"]), num(d["count"]))
    if e == "leftright":
        return "leftright %s %d" % (hx(d["s"]), num(d["n"]))
    if e == "trim":
        return "trim %s %s" % (hx(d["s"]), hx(d["cs"]))
    if e == "bafl":
        return "bafl %s %s %d" % (hx(d["s"]), hx(d["sep"]), ci)
    if e == "split":
        return "split %s %s %d %d" % (hx(d["s"]), hx(d["sep"]), num(d["max"]), ci)
    if e == "tokenize":
        return "tokenize %s %s" % (hx(d["s"]), hx(d["ds"]))
    if e == "replace":
        return "replace %s %s %s %d" % (hx(d["s"]), hx(d["from"]), hx(d["to"]), ci)
    return None


def sharded(name, exe, args, n):
    return [vlib.Job("%s-%d" % (name, i), exe, args + ["--shard", "%d/%d" % (i, n)], "TraceStrOps") for i in range(n)]


class StrCheck(Check):
    technique = ("TLA+ reference functions (StringOps.tla) with their algebraic laws and code-shaped loops model-checked by TLC; "
                 "TLC trace validation of recorded results of every overload form on enumerated inputs")
    design_ref = "DESIGN.md section 5 (C06-C09)"
    level_note = ("trusted: TLC/SANY, Json module, executor recording code, ASan/UBSan; bounded: strings over small alphabets "
                  "up to the stated lengths plus seeded random strings up to 40 bytes; 64-bit arguments at boundary values")
    assumptions = ["the order among case-insensitively different strings is left open (only sign antisymmetry, transitivity and the kernel are required)",
                   "C-string overloads are exercised on NUL-free arguments; const char* needles of replace() are passed with assume_valid unless ASCII",
                   "split(char) is exercised for characters 0x01..0x7F (documented contract)"]
    gen = ""
    rand_gen = ""

    def replay_jobs(self, rej):
        ev = rej.get("event")
        if not ev:
            return None
        d = json.loads(ev)
        if d.get("e") == "Abnormal":
            d = d.get("during") or {}
        line = replay_line(d) if d.get("e") else None
        if line is None:
            return None
        os.makedirs(os.path.join(vlib.OUT, "replays"), exist_ok=True)
        path = os.path.join(vlib.OUT, "replays", "strops-input-%d-%d.txt" % (os.getpid(), abs(hash(ev)) % 10 ** 8))
        with open(path, "w") as f:
            f.write(line + "\n")
        return [vlib.Job("replay-strops", vlib.build("exec_strops"), ["--gen", "file", "--file", path], "TraceStrOps")]

    def describe(self, rej):
        try:
            d = json.loads(rej["event"])
            if d.get("e") == "Abnormal":
                return "abnormal termination (%s: %s) during %s" % (d.get("kind"), d.get("detail"), json.dumps(d.get("during"))[:300])
            g = d["g"][rej["k"] - 1] if rej.get("k") else {}
            return "%s %s -> %s" % (d["e"], json.dumps({k: v for k, v in d.items() if k not in ("g", "e", "i")})[:400], json.dumps(g)[:300])
        except Exception:
            return (rej.get("event") or "")[:300]

    def jobs(self, tier, seed):
        e = vlib.build("exec_strops")
        q = tier == "quick"
        J = sharded("%s-enum" % self.pid.lower(), e, ["--gen", self.gen] + (self.args_quick if q else self.args_thorough),
                    self.shards_quick if q else self.shards_thorough)
        J += sharded("%s-rand" % self.pid.lower(), e, ["--gen", self.rand_gen, "--count", "4000" if q else "100000",
                                                        "--alpha", self.rand_alpha, "--seed", str(seed)], 2 if q else 16)
        return J


class C06(StrCheck):
    pid = "C06"
    gen, rand_gen, rand_alpha = "c06", "c06rand", "0,65,97,66,98,127,128,255"
    args_quick = ["--alpha", "0,65,97,66,128,255", "--maxlen", "2"]
    args_thorough = ["--alpha", "0,65,97,66,127,128,255", "--maxlen", "3"]
    shards_quick, shards_thorough = 4, 32
    level_text = ("TLC checks the total-order laws of the reference comparison on all triples over a byte alphabet and on sizes differing "
                  "by >= 2^31; all ordered pairs of strings over {00,A,a,B,80,FF} are compared through every entry point (4 element types, "
                  "operators, C-string/buffer/static forms, compare_n with every limit, hashes, case mapping) and TLC decides each result")
    rule = ("all ordered pairs of strings over the alphabet (len <= 2 quick / <= 3 thorough) through ~45 comparison entry points; "
            "compare_n for every prefix limit incl. 2^31..SIZE_MAX; static pointer+length compare with claimed sizes up to SIZE_MAX "
            "(only min bytes touched); a 43x43 (quick) sign matrix checked for antisymmetry/transitivity/kernel; to_upper/to_lower on all "
            "256 bytes; seeded random pairs up to 24 bytes over all byte values; wide buffers on units that are not bytes (all pairs of "
            "sequences over 16- and 32-bit boundary units); hashes of reassigned objects; ==, !=, compare() between the objects of "
            "the buffer-pool histories (moved-from, cleared, reassigned) incl. a fresh empty buffer and a fresh copy")

    def models(self, tier):
        return [("MC_Compare", "MC_Compare" if tier == "quick" else "MC_Compare_full")]

    # comparisons must see values, never leftovers of an object's history: the buffer-pool histories (moved-from,
    # reassigned, cleared objects of all four element types) contain "observe" steps (==, !=, compare() between two
    # live objects, against a fresh empty buffer and a fresh copy), decided by TraceBuffer.tla
    def jobs(self, tier, seed):
        import p_buffer
        J = StrCheck.jobs(self, tier, seed)
        J += sharded("c06-wide", vlib.build("exec_strops"), ["--gen", "cmpw"], 4)
        bc = p_buffer.BufferCheck()
        e = vlib.build("exec_buffer")
        sched = bc.schedule("quick", faults=False)         # the 2-slot graph has every (state, observe) edge
        n = 4 if tier == "quick" else 8
        J += [vlib.Job("c06-bufsched-%d" % i, e, ["--schedule", sched, "--shard", "%d/%d" % (i, n)], "TraceBuffer") for i in range(n)]
        J += [vlib.Job("c06-bufrand-%d" % i, e, ["--random", "300" if tier == "quick" else "3000", "--seed", str(seed * 100 + 60 + i)], "TraceBuffer")
              for i in range(2 if tier == "quick" else 8)]
        return J

    def replay_jobs(self, rej):
        if rej.get("spec") == "TraceBuffer":
            import p_buffer
            return p_buffer.BufferCheck().replay_jobs(rej)
        return StrCheck.replay_jobs(self, rej)

    def describe(self, rej):
        if rej.get("spec") == "TraceBuffer":
            import p_buffer
            try:
                d = json.loads(rej["event"])
                return "observe a=%s b=%s type=%s -> %s; %s" % (d.get("a"), d.get("b"), d.get("t"), d.get("obs"), p_buffer.BufferCheck().describe(rej))
            except Exception:
                pass
        return StrCheck.describe(self, rej)


class C07(StrCheck):
    pid = "C07"
    gen, rand_gen, rand_alpha = "c07", "c07rand", "97,65,98,0"
    args_quick = ["--alpha", "97,65,98,0", "--maxlen", "4", "--nlen", "2"]
    args_thorough = ["--alpha", "97,65,98,0", "--maxlen", "5", "--nlen", "3"]
    shards_quick, shards_thorough = 8, 48
    level_text = ("TLC checks that the first-unit-scan loop as written equals the declarative first/last occurrence on all bounded inputs; "
                  "all (haystack, needle, start/limit, case mode) combinations are executed through every needle form and TLC decides each index")
    rule = ("all haystacks (len <= 4 quick / 5 thorough) x needles (len <= 2 / 3) over {a,A,b,NUL} x every start/limit in 0..len+1, 2^31, "
            "SIZE_MAX x both case modes x every needle form (char, C string, pointer+length, ST::string, char8_t) for find, find_last, "
            "contains, starts_with, ends_with; seeded random haystacks up to 40 bytes with planted (partial) occurrences")

    def models(self, tier):
        return [("MC_StringOps", "MC_StringOps" if tier == "quick" else "MC_StringOps_full")]


class C08(StrCheck):
    pid = "C08"
    gen, rand_gen, rand_alpha = "c08", "c08rand", "97,98,32,0"
    args_quick = ["--alpha", "97,65,98,32,0", "--maxlen", "3", "--nlen", "2"]
    args_thorough = ["--alpha", "97,65,98,32,0", "--maxlen", "4", "--nlen", "2"]
    shards_quick, shards_thorough = 4, 32
    level_text = ("TLC checks the clamp and reassembly laws of the reference on bounded strings; substr/left/right/trim/before/after are executed "
                  "for every string of each size class with starts over the signed range and counts over the unsigned range (incl. counts within "
                  "start of SIZE_MAX), every separator form and case mode, and TLC decides every returned string")
    rule = ("strings over {a,b,space,NUL} (len <= 3 / 4) plus size classes L-1, L, L+1, 40 x 19 start values (LLONG_MIN..LLONG_MAX, around "
            "+-size) x counts {0,1,2,size,size+1,2^31,2^63,SIZE_MAX-2..SIZE_MAX, SIZE_MAX-start+-2, size-start+-2}; left/right for all n in "
            "0..2*size+2 and 2^31..SIZE_MAX; 6 trim charsets; before/after first/last with every separator (len <= 2 / 3) in char, C-string, "
            "ST::string, char8_t forms, both case modes; seeded random cases")

    def models(self, tier):
        return [("MC_StringOps", "MC_StringOps" if tier == "quick" else "MC_StringOps_full")]


class C09(StrCheck):
    pid = "C09"
    gen, rand_gen, rand_alpha = "c09", "c09rand", "97,65,0"
    args_quick = ["--alpha", "97,65,0", "--maxlen", "4", "--nlen", "2"]
    args_thorough = ["--alpha", "97,65,0", "--maxlen", "6", "--nlen", "3"]
    shards_quick, shards_thorough = 8, 64
    level_text = ("TLC checks join(split)=identity, the piece-count bound, the replace length law and the equality of replace's sizing and copying "
                  "scans on all bounded inputs; split/tokenize/replace are executed for every (subject, separator/pattern, replacement, max_splits, "
                  "case mode) through every overload form under a watchdog and TLC decides every returned vector/string")
    rule = ("all subjects (len <= 4 / 6) x separators/patterns (len <= 2 / 3) x replacements (len <= 2) over {a,A,NUL}, max_splits in "
            "{0,1,2,size,SIZE_MAX}, both case modes, char / C-string / ST::string / char8_t forms; growth and shrinkage across the small-string "
            "limit; tokenize with every delimiter set; seeded random subjects up to 40 bytes incl. non-ASCII bytes with planted occurrences; "
            "every call under a CPU-time watchdog and a 64 MiB allocation cap (termination is part of the property)")

    def models(self, tier):
        return [("MC_StringOps", "MC_StringOps" if tier == "quick" else "MC_StringOps_full")]


class X01(StrCheck):
    """Growth beyond the listed properties (not in MANIFEST.json): element access (at / [] / front / back), forward and
    reverse iteration of ST::string and all four buffer types, fill, to_bool / from_bool.  bin/check X01 reports
    rejections as property X01; no evidence file is written for it."""
    pid = "X01"
    gen, rand_gen, rand_alpha = "x01", "x01", "0"
    args_quick = ["--alpha", "97,0,255", "--maxlen", "3", "--count", "500"]
    args_thorough = ["--alpha", "97,98,0,128,255", "--maxlen", "4", "--count", "20000"]
    shards_quick, shards_thorough = 4, 16
    level_text = "extra coverage: element access, iteration, fill and boolean text against StringOps-style reference definitions"
    rule = "all strings over a small alphabet x indices {0,1,n-1,n,n+1,2^31,2^32,SIZE_MAX}; fill sizes across the small-string limit; boolean texts"

    def models(self, tier):
        return []

    def jobs(self, tier, seed):
        e = vlib.build("exec_strops")
        q = tier == "quick"
        return sharded("x01", e, ["--gen", "x01", "--seed", str(seed)] + (self.args_quick if q else self.args_thorough), self.shards_quick if q else self.shards_thorough)


class X02(X01):
    """More growth beyond the listed properties: exact hash values (Hash.tla: FNV-1a in the width of size_t, limb
    arithmetic, model-checked against the published test vectors), view() windows into the object's own storage,
    std::string copies and terminators of ST::string and all four buffer types, c_str(substitute), user-defined
    literals (_st, _stbuf)."""
    pid = "X02"
    args_quick = ["--alpha", "97,0,255", "--maxlen", "3", "--count", "300"]
    args_thorough = ["--alpha", "97,98,0,128,255", "--maxlen", "4", "--count", "20000"]
    level_text = "extra coverage: exact FNV-1a hash values, views, copies, c_str(substitute), literals"
    rule = ("all strings over a small alphabet + every byte value + size classes around the small-string limit, 40 and 300 bytes: "
            "ST::hash / std::hash / ST::hash_i against FNV-1a computed by TLC; every view(start[,len]) window; c_str(substitute)")

    def models(self, tier):
        return [("MC_Hash", "MC_Hash")]

    def jobs(self, tier, seed):
        e = vlib.build("exec_strops")
        q = tier == "quick"
        return sharded("x02", e, ["--gen", "x02", "--seed", str(seed)] + (self.args_quick if q else self.args_thorough), self.shards_quick if q else self.shards_thorough)


EXTRA = {"X01": X01, "X02": X02}
CHECKS = {"C06": C06, "C07": C07, "C08": C08, "C09": C09}
