"""C05 (and the buffer part of C19): buffer pool.  Spec: BufferPool.tla, MC_BufferPool.tla,
BufferImpl.tla; trace spec: TraceBuffer.tla; executor: exec_buffer."""
import json
import os

import schedules
import vlib
from runner import Check

L = 3
CLASS_OF_LEN = {0: 0, 1: 1, L - 1: 2, L: 3, L + 1: 4, 2 * L: 5}

CFG = """SPECIFICATION Spec
CONSTANTS
  Slots = {%s}
  L = 3
  Tags = {"A", "B"}
  EmitEdges = TRUE
  WithFaults = %s
VIEW View
ACTION_CONSTRAINT Emit
CHECK_DEADLOCK FALSE
"""


def op_line(a):
    n = a["n"]
    cls = CLASS_OF_LEN.get(a["len"], 0)
    tag = a["tag"] if a["tag"] in ("A", "B") else "A"
    return "%s %d %d %d %s" % (n, a["a"], a["b"], cls, tag)


def prefer(e):
    """Among model edges that differ only in the moved-from value, plan with the one the
    current implementation takes (constructor: source empty; assignment: swap)."""
    a = e["a"]
    f = e["f"].split(".")
    t = e["t"].split(".")
    if a["n"] == "moveconstruct":
        return 0 if t[a["b"] - 1].startswith("0-") else 1
    if a["n"] == "moveassign":
        if a["a"] == a["b"]:
            return 0 if t[a["a"] - 1] == f[a["a"] - 1] else 1
        return 0 if t[a["b"] - 1][:-1] == f[a["a"] - 1][:-1] else 1
    if a["n"].startswith("fault"):
        return 0 if e["f"] == e["t"] else 1
    return 0


def make_schedule(nslots, faults, path, maxlen=28):
    slots = ", ".join(str(i) for i in range(1, nslots + 1))
    edges, stats = schedules.emit_edges("MC_BufferPool", CFG % (slots, "TRUE" if faults else "FALSE"),
                                        "buf%d%s" % (nslots, "f" if faults else ""))
    init = "D." * nslots
    walks, total = schedules.covering_walks(edges, init, lambda e: op_line(e["a"]), prefer, maxlen)
    with open(path, "w") as f:
        for w in walks:
            f.write("reset\n")
            for e in w:
                f.write(op_line(e["a"]) + "\n")
    return {"model_edges": len(edges), "distinct_state_op_pairs": total, "schedules": len(walks),
            "steps": sum(len(w) for w in walks), "model_states": stats["distinct"]}


class BufferCheck(Check):
    technique = ("TLA+ pool specification (BufferPool.tla) model-checked by TLC; TLC's explored state graph is turned into "
                 "operation schedules covering every (state, operation) edge, replayed on real ST::buffer<T> objects; TLC "
                 "trace validation of the recorded projections; statement-level model BufferImpl checked against the pool invariants")
    design_ref = "DESIGN.md section 5 (C05, C19), section 3"
    level_note = ("trusted: TLC/SANY, Json module, executor recording code and allocation shim, ASan/UBSan; bounded: 2-3 slots, "
                  "length classes {0,1,L-1,L,L+1,2L+8} around each element type's limit, schedules of <= 28 steps plus seeded random walks")
    assumptions = ["moved-from and self-move-assigned values are unspecified-but-valid (read from the log, must satisfy the representation invariants)",
                   "content after a bare allocate(n) is unspecified; its length, storage class and terminator are not",
                   "block ids are opaque: only ownership structure (exclusive, live, not leaked) is compared"]

    gen_info = None

    def schedule(self, tier, faults):
        os.makedirs(os.path.join(vlib.OUT, "sched"), exist_ok=True)
        n = 2 if tier == "quick" else 3
        p = os.path.join(vlib.OUT, "sched", "buffer-%d%s-%d.txt" % (n, "f" if faults else "", os.getpid()))
        self.gen_info = make_schedule(n, faults, p)
        return p

    def replay_jobs(self, rej):
        # re-run the whole shard that produced the rejection (schedules are deterministic)
        if not rej.get("exe") or not rej.get("args"):
            return None
        return [vlib.Job("replay-buffer", rej["exe"], rej["args"], "TraceBuffer")]

    def describe(self, rej):
        try:
            d = json.loads(rej["event"])
            if d.get("e") == "Abnormal":
                return "abnormal termination (%s: %s) during %s" % (d.get("kind"), d.get("detail"), json.dumps(d.get("during"))[:300])
            post = [(p["s"], p.get("n"), p.get("stor"), p.get("bad"), p.get("z")) for p in d.get("post", []) if p["st"] == "live"]
            return "%s: step %s a=%s b=%s type=%s exc=%s -> live slots (slot,size,stor,bad,terminator)=%s live blocks=%s badfree=%s" % (
                rej.get("what"), d.get("e"), d.get("a"), d.get("b"), d.get("t"), d.get("exc"), post, d.get("live"), d.get("badfree"))
        except Exception:
            return (rej.get("event") or "")[:300]

    def extra_coverage(self, tier, agg):
        return {"schedule_generation": self.gen_info}


class C05(BufferCheck):
    pid = "C05"
    level_text = ("TLC explores the abstract pool exhaustively (2 slots quick / 3 slots thorough, 6 length classes, 2 content tags), "
                  "every explored (state, operation) edge is executed on real buffers of all four element types and every recorded "
                  "post-state of every live object is decided by TLC against the pool specification: histories, not single calls")
    rule = ("operation schedules covering every edge of the TLC state graph of MC_BufferPool (shortest-path navigation, <= 28 steps "
            "each) x 4 element types, plus seeded random walks of 30 steps on 3 slots; after every step the projection of all live "
            "objects (units, size, storage class/owning block, terminator, live blocks, bad frees) is validated")
    exhaustive_note = "every (state, operation) edge of the 3-slot pool model is executed for each of the four element types"

    def models(self, tier):
        return [("MC_BufferPool", "MC_BufferPool_2" if tier == "quick" else "MC_BufferPool_3"),
                ("MC_BufferImpl", "MC_BufferImpl" if tier == "quick" else "MC_BufferImpl_full")]

    def jobs(self, tier, seed):
        e = vlib.build("exec_buffer")
        sched = self.schedule(tier, faults=False)
        n = 4 if tier == "quick" else 32
        J = []
        for i in range(n):
            args = ["--schedule", sched, "--shard", "%d/%d" % (i, n)]
            J.append(vlib.Job("c05-sched-%d" % i, e, args, "TraceBuffer"))
        nr = 4 if tier == "quick" else 16
        for i in range(nr):
            args = ["--random", "400" if tier == "quick" else "4000", "--seed", str(seed * 100 + i)]
            J.append(vlib.Job("c05-rand-%d" % i, e, args, "TraceBuffer"))
        for j in J:
            j.sample = 3
        return J


def fault_jobs(check, tier, seed):
    """Buffer part of C19: every allocating edge of the pool model with its allocation failing,
    inside longer histories, plus random walks with random injected failures."""
    e = vlib.build("exec_buffer")
    sched = check.schedule(tier, faults=True)
    n = 4 if tier == "quick" else 32
    J = []
    for i in range(n):
        J.append(vlib.Job("c19-bufsched-%d" % i, e, ["--schedule", sched, "--shard", "%d/%d" % (i, n)], "TraceBuffer"))
    for i in range(4 if tier == "quick" else 16):
        J.append(vlib.Job("c19-bufrand-%d" % i, e, ["--random", "400" if tier == "quick" else "4000", "--faults",
                                                     "--seed", str(seed * 100 + 50 + i)], "TraceBuffer"))
    return J


CHECKS = {"C05": C05}
