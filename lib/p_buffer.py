"""C05 (and the buffer part of C19): buffer pool.  Spec: BufferPool.tla, MC_BufferPool.tla,
BufferImpl.tla; trace spec: TraceBuffer.tla; executor: exec_buffer."""
import json
import os

import schedules
import vlib
from runner import Check

L = 3
CLASS_OF_LEN = {0: 0, 1: 1, L - 1: 2, L: 3, L + 1: 4, 2 * L: 5}

CFG = """SPECIFICATION Spec
CONSTANTS
  Slots = {%s}
  L = 3
  Tags = {"A", "B"}
  EmitEdges = TRUE
  WithFaults = %s
  TrackPeak = %s
VIEW View
ACTION_CONSTRAINT Emit
CHECK_DEADLOCK FALSE
"""


def op_line(a):
    n = a["n"]
    cls = CLASS_OF_LEN.get(a["len"], 0)
    tag = a["tag"] if a["tag"] in ("A", "B") else "A"
    return "%s %d %d %d %s" % (n, a["a"], a["b"], cls, tag)


def prefer(e):
    """Among model edges that differ only in the moved-from value, plan with the one the
    current implementation takes (constructor: source empty; assignment: swap)."""
    a = e["a"]
    f = [x.split("~")[0] for x in e["f"].split(".")]        # (without the peak history suffix)
    t = [x.split("~")[0] for x in e["t"].split(".")]
    if a["n"] == "moveconstruct":
        return 0 if t[a["b"] - 1].startswith("0-") else 1
    if a["n"] == "moveassign":
        if a["a"] == a["b"]:
            return 0 if t[a["a"] - 1] == f[a["a"] - 1] else 1
        return 0 if t[a["b"] - 1][:-1] == f[a["a"] - 1][:-1] else 1
    if a["n"].startswith("fault"):
        return 0 if e["f"] == e["t"] else 1
    return 0


def make_schedule(nslots, faults, path, maxlen=28, peak=False):
    slots = ", ".join(str(i) for i in range(1, nslots + 1))
    edges, stats = schedules.emit_edges("MC_BufferPool", CFG % (slots, "TRUE" if faults else "FALSE", "TRUE" if peak else "FALSE"),
                                        "buf%d%s%s" % (nslots, "f" if faults else "", "p" if peak else ""))
    init = "D." * nslots
    walks, total = schedules.covering_walks(edges, init, lambda e: op_line(e["a"]), prefer, maxlen)
    with open(path, "w") as f:
        for w in walks:
            f.write("reset\n")
            for e in w:
                f.write(op_line(e["a"]) + "\n")
    return {"model_edges": len(edges), "distinct_state_op_pairs": total, "schedules": len(walks),
            "steps": sum(len(w) for w in walks), "model_states": stats["distinct"]}


def stale_schedule(path):
    """Directed three-step histories the abstract state graph cannot tell apart from shorter ones: an object is given
    a value, then emptied / shrunk / moved from in every way (so that its in-object array or its old block still holds
    the earlier units), then refilled in every way - and observed.  Same line format as the TLC-generated schedules."""
    n = 0
    with open(path, "w") as f:
        for c1 in range(6):
            for t1 in "AB":
                agers = [["moveconstruct 2 1 0 -"], ["construct 2 0 1 A", "moveassign 2 1 0 -"], ["construct 2 0 5 A", "moveassign 2 1 0 -"],
                         ["clear 1 0 0 -"], ["allocate 1 0 0 A"], ["allocate 1 0 1 A"], ["allocatefill 1 0 1 B"], ["allocatefill 1 0 0 A"],
                         ["construct 2 0 0 A", "copyassign 1 2 0 -"], ["construct 2 0 1 B", "copyassign 1 2 0 -"], ["moveassign 1 1 0 -"]]
                for ag in agers:
                    for c2 in range(6):
                        refills = ["allocatefill 1 0 %d A" % c2, "allocatefill 1 0 %d B" % c2, "allocate 1 0 %d A" % c2]
                        if c2 in (0, 2, 4):
                            refills += ["copyassign 1 2 0 -", "moveassign 1 2 0 -"]
                        for rf in refills:
                            lines = ["reset", "construct 1 0 %d %s" % (c1, t1)] + ag
                            if rf.endswith("2 0 -"):
                                if any(l.startswith(("construct 2", "moveconstruct 2")) for l in ag):
                                    lines += ["destroy 2 0 0 -"]
                                lines += ["construct 2 0 %d %s" % (c2, "B" if t1 == "A" else "A")]
                            lines += [rf, "observe 1 1 0 -"]
                            if any(l.startswith(("construct 2", "moveconstruct 2")) for l in lines):
                                lines += ["observe 1 2 0 -", "observe 2 1 0 -"]
                            lines += ["copyconstruct 3 1 0 -", "observe 3 1 0 -"] if False else []
                            f.write("\n".join(lines) + "\n")
                            n += 1
    return n


class BufferCheck(Check):
    technique = ("TLA+ pool specification (BufferPool.tla) model-checked by TLC; TLC's explored state graph is turned into "
                 "operation schedules covering every (state, operation) edge, replayed on real ST::buffer<T> objects; TLC "
                 "trace validation of the recorded projections; statement-level model BufferImpl checked against the pool invariants")
    design_ref = "DESIGN.md section 5 (C05, C19), section 3"
    level_note = ("trusted: TLC/SANY, Json module, executor recording code and allocation shim, ASan/UBSan; bounded: 2-3 slots, "
                  "length classes {0,1,L-1,L,L+1,2L+8} around each element type's limit, schedules of <= 28 steps plus seeded random walks")
    assumptions = ["moved-from and self-move-assigned values are unspecified-but-valid (read from the log, must satisfy the representation invariants)",
                   "content after a bare allocate(n) is unspecified; its length, storage class and terminator are not",
                   "block ids are opaque: only ownership structure (exclusive, live, not leaked) is compared"]

    gen_info = None

    def schedule(self, tier, faults):
        os.makedirs(os.path.join(vlib.OUT, "sched"), exist_ok=True)
        n = 2 if tier == "quick" else 3
        p = os.path.join(vlib.OUT, "sched", "buffer-%d%s-%d.txt" % (n, "f" if faults else "", os.getpid()))
        self.gen_info = make_schedule(n, faults, p)
        return p

    def replay_jobs(self, rej):
        # re-run the whole shard that produced the rejection (schedules are deterministic)
        if not rej.get("exe") or not rej.get("args"):
            return None
        return [vlib.Job("replay-buffer", rej["exe"], rej["args"], "TraceBuffer")]

    def describe(self, rej):
        try:
            d = json.loads(rej["event"])
            if d.get("e") == "Abnormal":
                return "abnormal termination (%s: %s) during %s" % (d.get("kind"), d.get("detail"), json.dumps(d.get("during"))[:300])
            post = [(p["s"], p.get("n"), p.get("stor"), p.get("bad"), p.get("z")) for p in d.get("post", []) if p["st"] == "live"]
            return "%s: step %s a=%s b=%s type=%s exc=%s -> live slots (slot,size,stor,bad,terminator)=%s live blocks=%s badfree=%s" % (
                rej.get("what"), d.get("e"), d.get("a"), d.get("b"), d.get("t"), d.get("exc"), post, d.get("live"), d.get("badfree"))
        except Exception:
            return (rej.get("event") or "")[:300]

    gen_info_peak = None

    def extra_coverage(self, tier, agg):
        r = {"schedule_generation": self.gen_info}
        if self.gen_info_peak:
            r["schedule_generation_with_peak_history"] = self.gen_info_peak
        return r


class C05(BufferCheck):
    pid = "C05"
    level_text = ("TLC explores the abstract pool exhaustively (2 slots quick / 3 slots thorough, 6 length classes, 2 content tags), "
                  "every explored (state, operation) edge is executed on real buffers of all four element types and every recorded "
                  "post-state of every live object is decided by TLC against the pool specification: histories, not single calls")
    rule = ("operation schedules covering every edge of the TLC state graph of MC_BufferPool (shortest-path navigation, <= 28 steps "
            "each) x 4 element types, the same for the 2-slot model with the peak-length history variable in its state identity (2,704 states, "
            "134,786 (state, operation) pairs, one element type per schedule in turn), directed three-step histories (value, then emptied / shrunk / moved from in 11 ways, then refilled in 5 ways "
            "incl. a zero fill, then observed), plus seeded random walks of 30 steps on 3 slots; after every step the projection of all live "
            "objects (units, size, storage class/owning block, terminator, live blocks, bad frees) is validated")
    exhaustive_note = "every (state, operation) edge of the 3-slot pool model is executed for each of the four element types"

    def models(self, tier):
        return [("MC_BufferPool", "MC_BufferPool_2" if tier == "quick" else "MC_BufferPool_3"),
                ("MC_BufferPool", "MC_BufferPool_2p"),
                ("MC_BufferImpl", "MC_BufferImpl" if tier == "quick" else "MC_BufferImpl_full")]

    def jobs(self, tier, seed):
        e = vlib.build("exec_buffer")
        sched = self.schedule(tier, faults=False)
        n = 4 if tier == "quick" else 32
        J = []
        for i in range(n):
            args = ["--schedule", sched, "--shard", "%d/%d" % (i, n)]
            J.append(vlib.Job("c05-sched-%d" % i, e, args, "TraceBuffer"))
        # histories: the same model with the peak-length history variable in the state identity (every operation in every
        # (value, longest value held before) combination), each schedule on one element type in turn
        hp = os.path.join(vlib.OUT, "sched", "buffer-peak-%d.txt" % os.getpid())
        self.gen_info_peak = make_schedule(2, False, hp, peak=True)
        nh = 8 if tier == "quick" else 16
        for i in range(nh):
            J.append(vlib.Job("c05-peak-%d" % i, e, ["--schedule", hp, "--rotate", "--shard", "%d/%d" % (i, nh)], "TraceBuffer"))
        stale = os.path.join(vlib.OUT, "sched", "buffer-stale-%d.txt" % os.getpid())
        stale_schedule(stale)
        for i in range(2 if tier == "quick" else 4):
            J.append(vlib.Job("c05-stale-%d" % i, e, ["--schedule", stale, "--shard", "%d/%d" % (i, 2 if tier == "quick" else 4)], "TraceBuffer"))
        nr = 4 if tier == "quick" else 16
        for i in range(nr):
            args = ["--random", "400" if tier == "quick" else "4000", "--seed", str(seed * 100 + i)]
            J.append(vlib.Job("c05-rand-%d" % i, e, args, "TraceBuffer"))
        for j in J:
            j.sample = 3
        return J


def fault_jobs(check, tier, seed):
    """Buffer part of C19: every allocating edge of the pool model with its allocation failing,
    inside longer histories, plus random walks with random injected failures."""
    e = vlib.build("exec_buffer")
    sched = check.schedule(tier, faults=True)
    n = 4 if tier == "quick" else 32
    J = []
    for i in range(n):
        J.append(vlib.Job("c19-bufsched-%d" % i, e, ["--schedule", sched, "--shard", "%d/%d" % (i, n)], "TraceBuffer"))
    for i in range(4 if tier == "quick" else 16):
        J.append(vlib.Job("c19-bufrand-%d" % i, e, ["--random", "400" if tier == "quick" else "4000", "--faults",
                                                     "--seed", str(seed * 100 + 50 + i)], "TraceBuffer"))
    return J


CHECKS = {"C05": C05}
