import p_conv

CHECKS = {}
CHECKS.update(p_conv.CHECKS)

# executors to compile in setup (each check also builds what it needs on demand)
PREBUILD = [
    dict(name="exec_conv"),
    dict(name="exec_conv", variant="substitute", defines=["ST_DEFAULT_VALIDATION=ST::substitute_invalid"]),
    dict(name="exec_conv", variant="assume", defines=["ST_DEFAULT_VALIDATION=ST::assume_valid"]),
]

# properties the TLA+ machinery is not applied to (with the reason); empty = all are meant to be decided
NOT_APPLICABLE = {}
