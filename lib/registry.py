import p_conv
import p_buffer
import p_alloc
import p_strops
import p_format
import p_codecs
import p_stream
import p_strpool
import p_threads

CHECKS = {}
CHECKS.update(p_conv.CHECKS)
CHECKS.update(p_buffer.CHECKS)
CHECKS.update(p_alloc.CHECKS)
CHECKS.update(p_strops.CHECKS)
CHECKS.update(p_format.CHECKS)
CHECKS.update(p_codecs.CHECKS)
CHECKS.update(p_stream.CHECKS)
CHECKS.update(p_strpool.CHECKS)
CHECKS.update(p_threads.CHECKS)

# coverage beyond the listed properties (bin/check X01): not part of MANIFEST.json
CHECKS.update(p_strops.EXTRA)

# executors to compile in setup (each check also builds what it needs on demand)
PREBUILD = [
    dict(name="exec_conv"),
    dict(name="exec_buffer"),
    dict(name="exec_strops"),
    dict(name="exec_format"),
    dict(name="exec_codecs"),
    dict(name="exec_stream"),
    dict(name="exec_strpool"),
    dict(name="exec_threads", san=["-fsanitize=thread"], hooks=False),
    dict(name="exec_conv", variant="substitute", defines=["ST_DEFAULT_VALIDATION=ST::substitute_invalid"]),
    dict(name="exec_conv", variant="assume", defines=["ST_DEFAULT_VALIDATION=ST::assume_valid"]),
]

# properties the TLA+ machinery is not applied to (with the reason); empty = all are meant to be decided
NOT_APPLICABLE = {}
