"""C16 (and the stream part of C18/C19): string_stream pool.  Spec: Stream.tla, MC_Stream.tla, StreamImpl.tla;
trace spec: TraceStream.tla; executor: exec_stream."""
import json
import os

import schedules
import vlib
from runner import Check

CFG = """SPECIFICATION Spec
CONSTANTS
  Slots = {%s}
  Targets = {%s}
  EmitEdges = TRUE
  WithFaults = %s
VIEW View
ACTION_CONSTRAINT Emit
CHECK_DEADLOCK FALSE
"""
TARGETS2 = "1, 255, 256, 257, 512, 513, 1025, 3000"
TARGETS3 = "1, 256, 257, 513, 3000"


def op_line(a):
    return "%s %d %d %d" % (a["n"], a["a"], a["b"], a["len"])


def make_schedule(nslots, faults, path, maxlen=30):
    slots = ", ".join(str(i) for i in range(1, nslots + 1))
    edges, stats = schedules.emit_edges("MC_Stream", CFG % (slots, TARGETS2 if nslots == 2 else TARGETS3, "TRUE" if faults else "FALSE"),
                                        "strm%d%s" % (nslots, "f" if faults else ""))
    if faults:      # C19 part: only walks that end in (or pass through) a failing allocation matter; keep all edges, faults included
        pass
    init = "D." * nslots
    walks, total = schedules.covering_walks(edges, init, lambda e: op_line(e["a"]), None, maxlen)
    with open(path, "w") as f:
        for w in walks:
            f.write("reset\n")
            for e in w:
                f.write(op_line(e["a"]) + "\n")
    return {"model_edges": len(edges), "distinct_state_op_pairs": total, "schedules": len(walks),
            "steps": sum(len(w) for w in walks), "model_states": stats["distinct"]}


def capacity_edge_schedule(path, faults, floats_only=False):
    """Integers inserted when the stream is within a few bytes of its capacity: sign and digits are two appends in the
    code, so 'the digits no longer fit' is hit for every family, digit count and distance to the capacity - with the
    growth succeeding (C16) or failing (C19)."""
    fams = [(0, 9), (1, 9), (2, 18), (3, 18), (4, 18), (5, 18)]       # family index, max decimal digits used
    with open(path, "w") as f:
        for cap in (256, 512, 1024):
            for fam, maxd in ([] if floats_only else fams):
                for d in (1, 2, 3, 7, 9, 18):
                    if d > maxd:
                        continue
                    for neg in ((True, False) if fam in (0, 2, 4) else (False,)):
                        v = 10 ** (d - 1) + 7 % (10 ** (d - 1) if d > 1 else 1)
                        need = d + (1 if neg else 0)
                        for delta in (-2, -1, 0, 1):
                            pre = cap - need - delta
                            f.write("reset\nconstruct 1 0 0\nappend 1 0 %d\n" % pre)
                            f.write("%sinsint 1 %d %d\n" % ("fault " if faults else "", fam, -v if neg else v))
                            f.write("tostring 1 0 0\nappendchar 1 0 3\ndestroy 1 0 0\n")
            # floating-point insertions (%g text of 3..13 bytes) at every distance -2..2 from the capacity
            import struct
            dbls = [-1.23457e+100, 1234.5678, -1.7976931348623157e308, 0.5, -5e-324, 1e-5, 123456789.0, float("inf"), -2.5e-310, 100000.0]
            for k, v in enumerate(dbls):
                for isdbl in (0, 1):
                    if not isdbl:
                        try:
                            v2 = struct.unpack("f", struct.pack("f", v))[0]
                        except OverflowError:
                            continue
                    else:
                        v2 = v
                    need = len("%g" % v2)
                    for delta in (-2, -1, 0, 1, 2):
                        pre = cap - need - delta
                        f.write("reset\nconstruct 1 0 0\nappend 1 0 %d\n" % pre)
                        f.write("%sinsdbl 1 %d %d\n" % ("fault " if faults else "", isdbl, k))
                        f.write("tostring 1 0 0\nappendchar 1 0 3\ndestroy 1 0 0\n")


class StreamCheck(Check):
    technique = ("TLA+ stream-pool specification (Stream.tla) model-checked by TLC; the statement-level model of string_stream "
                 "(StreamImpl.tla: explicit memory cells, doubling loop, moves, failing new) model-checked against content, ownership "
                 "and termination invariants; TLC's explored state graph turned into operation schedules covering every (state, "
                 "operation) edge, replayed on real ST::string_stream objects; TLC trace validation of every recorded projection, with "
                 "the appended bytes computed in TLA+ from the logged argument")
    design_ref = "DESIGN.md section 5 (C16)"
    level_note = ("trusted: TLC/SANY, Json module, executor recording code (incl. the lossless chunk encoding of byte strings) and "
                  "allocation shim, ASan/UBSan, glibc snprintf(\"%g\") as the reference for floating-point insertions; bounded: 2-3 streams, "
                  "content lengths at the boundaries of 256/512/1024/2048/4096 bytes, schedules of <= 30 steps plus seeded random walks "
                  "of 40 steps over all 31 insertion families")
    assumptions = ["capacity policy is not constrained: a step may keep or replace the storage as long as ownership stays exclusive and nothing leaks",
                   "to_string() of contents longer than 64 bytes is compared exactly only when the content is pure ASCII (longer non-ASCII contents: outcome class only)",
                   "self-move-assignment of a stream is outside the generated domain (the statement lists moves, not self-moves)",
                   "truncate/erase counts above 2^31-1 are logged as 2^31-1 (contents are far smaller)"]
    gen_info = None

    def schedule(self, tier, faults):
        os.makedirs(os.path.join(vlib.OUT, "sched"), exist_ok=True)
        n = 2 if tier == "quick" else 3
        p = os.path.join(vlib.OUT, "sched", "stream-%d%s-%d.txt" % (n, "f" if faults else "", os.getpid()))
        self.gen_info = make_schedule(n, faults, p)
        return p

    def replay_jobs(self, rej):
        if not rej.get("exe") or not rej.get("args"):
            return None
        args = list(rej["args"])
        try:        # re-execute only the execution the rejected step belongs to
            x = json.loads(rej["event"]).get("x")
            if x is None:
                x = json.loads(rej["event"]).get("during", {}).get("x")
            if x is not None and "--exec" not in args:
                args += ["--exec", str(x)]
        except Exception:
            pass
        return [vlib.Job("replay-stream", vlib.build("exec_stream"), args, "TraceStream")]

    def describe(self, rej):
        try:
            d = json.loads(rej["event"])
            if d.get("e") == "Abnormal":
                return "abnormal termination (%s: %s) during %s" % (d.get("kind"), d.get("detail"), json.dumps(d.get("during"))[:300])
            post = [(p["s"], p.get("n"), p.get("stor"), p.get("bad"), str(p.get("v"))[:60]) for p in d.get("post", []) if p["st"] == "live"]
            return "%s: step %s a=%s b=%s len=%s fam=%s exc=%s fault=%s -> live streams (slot,size,stor,bad,content)=%s live blocks=%s badfree=%s" % (
                rej.get("what"), d.get("e"), d.get("a"), d.get("b"), d.get("len"), d.get("fam"), d.get("exc"), d.get("fault"), post,
                d.get("live"), d.get("badfree"))
        except Exception:
            return (rej.get("event") or "")[:300]

    def extra_coverage(self, tier, agg):
        return {"schedule_generation": self.gen_info}


def sched_jobs(check, tier, faults, prefix):
    e = vlib.build("exec_stream")
    sched = check.schedule(tier, faults=faults)
    n = 16 if tier == "quick" else 48
    return [vlib.Job("%s-sched-%d" % (prefix, i), e, ["--schedule", sched, "--shard", "%d/%d" % (i, n)], "TraceStream") for i in range(n)]


class C16(StreamCheck):
    pid = "C16"
    level_text = ("TLC explores the abstract stream pool exhaustively (2 streams quick / 3 thorough; content lengths at every capacity boundary) "
                  "and the statement-level model with explicit memory cells; every explored (state, operation) edge is executed on real "
                  "string_stream objects through all insertion families, and every recorded post-state of every live stream (bytes, size, "
                  "storage owner, live heap blocks) is decided by TLC, the appended bytes being computed in TLA+ from the logged argument")
    rule = ("operation schedules covering every edge of the TLC state graph of MC_Stream (<= 30 steps each), insertion family rotated over "
            "append/append_char/operator<< for char*, char8_t*, wchar_t*, char16_t*, char32_t*, ST::string, std::basic_string and "
            "string_view of every width; seeded random walks of 40 steps on 3 streams with random text (incl. malformed wide text, "
            "embedded NUL, null pointers), integers of all six types at boundary and random values, floats/doubles, truncate, erase, "
            "moves, to_string in all modes; projection of all live streams validated after every step")
    exhaustive_note = "every (state, operation) edge of the 3-stream model is executed"

    def models(self, tier):
        return [("MC_Stream", "MC_Stream_2" if tier == "quick" else "MC_Stream_3"),
                ("StreamImpl", "MC_StreamImpl" if tier == "quick" else "MC_StreamImpl_full")]

    def jobs(self, tier, seed):
        e = vlib.build("exec_stream")
        J = sched_jobs(self, tier, False, "c16")
        cs = os.path.join(vlib.OUT, "sched", "stream-capedge-%d.txt" % os.getpid())
        capacity_edge_schedule(cs, False)
        J += [vlib.Job("c16-capedge-%d" % i, e, ["--schedule", cs, "--shard", "%d/2" % i], "TraceStream") for i in range(2)]
        for i in range(8 if tier == "quick" else 32):
            J.append(vlib.Job("c16-rand-%d" % i, e, ["--random", "300" if tier == "quick" else "3000", "--seed", str(seed * 100 + i)], "TraceStream"))
        for j in J:
            j.sample = 3
        return J


def fault_jobs(check, tier, seed):
    """Stream part of C19: every growing append of the stream model with its allocation failing, plus random walks with failures."""
    e = vlib.build("exec_stream")
    J = sched_jobs(check, tier, True, "c19-strm")
    cs = os.path.join(vlib.OUT, "sched", "stream-capedge-f-%d.txt" % os.getpid())
    capacity_edge_schedule(cs, True)
    J += [vlib.Job("c19-strm-capedge-%d" % i, e, ["--schedule", cs, "--shard", "%d/2" % i], "TraceStream") for i in range(2)]
    for i in range(4 if tier == "quick" else 16):
        J.append(vlib.Job("c19-strmrand-%d" % i, e, ["--random", "300" if tier == "quick" else "3000", "--faults",
                                                      "--seed", str(seed * 100 + 70 + i)], "TraceStream"))
    return J


CHECKS = {"C16": C16}
