"""Schedules from TLC: run a bounded model with edge emission on, rebuild the state graph from the
emitted transitions and produce operation schedules whose union covers every (state, operation) edge."""
import collections
import json
import os
import re
import shutil

import vlib


def emit_edges(module, cfg_text, tag):
    """Run TLC (-workers 1) with the given cfg text; return (edges, stats). Each edge: dict(f, t, a)."""
    os.makedirs(vlib.OUT, exist_ok=True)
    cfg = os.path.join(vlib.OUT, "gen-%s-%d.cfg" % (tag, os.getpid()))
    with open(cfg, "w") as f:
        f.write(cfg_text)
    md = os.path.join(vlib.OUT, "md-gen-%s-%d" % (tag, os.getpid()))
    try:
        r = vlib.java_tlc(["-metadir", md, "-config", cfg, module + ".tla"], heap="6g", workers=1, serial_gc=False)
    finally:
        shutil.rmtree(md, ignore_errors=True)
        os.remove(cfg)
    if "No error has been found" not in r.stdout:
        raise vlib.InfraError("schedule generation model %s failed:\n%s" % (module, r.stdout[-3000:]))
    edges = []
    seen = set()
    for line in r.stdout.splitlines():
        if line.startswith('"EDGE '):
            body = line[6:-1].replace('\\"', '"').replace("\\\\", "\\")
            if body in seen:
                continue
            seen.add(body)
            edges.append(json.loads(body))
    return edges, vlib.tlc_stats(r.stdout)


def covering_walks(edges, init_key, opkey, prefer=None, maxlen=28):
    """Greedy edge cover: walks from init_key; each walk at most maxlen operations.
    opkey(edge) -> hashable operation identity; edges with the same (f, opkey) count as one
    (the implementation, not the schedule, resolves the model's open choices); prefer(edge)
    ranks alternatives (lower is better)."""
    adj = collections.defaultdict(dict)           # f -> opkey -> edge
    for e in edges:
        k = opkey(e)
        cur = adj[e["f"]].get(k)
        if cur is None or (prefer and prefer(e) < prefer(cur)):
            adj[e["f"]][k] = e
    uncovered = {(f, k) for f, d in adj.items() for k in d}
    total = len(uncovered)
    walks = []
    pos, walk = init_key, []
    # states with uncovered edges
    pending = collections.Counter(f for f, _ in uncovered)

    def bfs_to_pending(src):
        if pending.get(src):
            return []
        prev = {src: None}
        dq = collections.deque([src])
        while dq:
            u = dq.popleft()
            for k, e in adj[u].items():
                v = e["t"]
                if v in prev:
                    continue
                prev[v] = (u, e)
                if pending.get(v):
                    path = []
                    while prev[v] is not None:
                        u2, e2 = prev[v]
                        path.append(e2)
                        v = u2
                    return path[::-1]
                dq.append(v)
        return None

    while uncovered:
        took = None
        for k, e in adj[pos].items():
            if (pos, k) in uncovered:
                took = e
                break
        if took is None:
            path = bfs_to_pending(pos)
            if path is None or len(walk) + len(path) + 1 > maxlen:
                if walk:
                    walks.append(walk)
                walk, pos = [], init_key
                path = bfs_to_pending(pos)
                if path is None:
                    break
            for e in path:
                walk.append(e)
                k = opkey(e)
                if (e["f"], k) in uncovered:
                    uncovered.discard((e["f"], k))
                    pending[e["f"]] -= 1
                pos = e["t"]
            continue
        walk.append(took)
        uncovered.discard((pos, opkey(took)))
        pending[pos] -= 1
        pos = took["t"]
        if len(walk) >= maxlen:
            walks.append(walk)
            walk, pos = [], init_key
    if walk:
        walks.append(walk)
    return walks, total
