"""Generic check driver: model checking + trace validation + verdict + evidence."""
import json
import os
import sys
import time

import vlib
from vlib import InfraError, ModelViolation, log


class Check:
    """A property check. Subclasses / instances provide:
       pid, models(tier) -> [(module, cfg, must_take)], jobs(tier, seed) -> [vlib.Job],
       replay_job(rejection) -> vlib.Job or None, rule, assumptions, nontrivial counters."""
    pid = "C00"
    trusted = ["TLC 1.8.0 (SANY, Json/IOUtils community modules)", "executor recording code (no expectations)",
               "ASan/UBSan/LSan as observation instruments"]
    rule = ""
    exhaustive_note = ""

    def models(self, tier):
        return []

    def jobs(self, tier, seed):
        return []

    def replay_jobs(self, rej):
        return None

    def describe(self, rej):
        ev = rej.get("event") or ""
        return ev[:300]

    def extra_coverage(self, tier, agg):
        return {}


def run(check, tier, seed, replay=None, keep=False):
    t0 = time.time()
    pid = check.pid
    kf = vlib.known_findings()
    violations = []       # (replay_path, text)
    known_hits = {}
    cov = {"states": 0, "transitions": 0, "traces_validated_against_impl": 0, "samples": [],
           "models": [], "checker_cmd": "java -cp tla2tools.jar tlc2.TLC (see lib/vlib.py)",
           "trusted_base": check.trusted}
    try:
        # (A) model checking of the specification itself
        if not replay:
            for m in check.models(tier):
                module, cfg = m[0], m[1]
                must = m[2] if len(m) > 2 else ()
                try:
                    r = vlib.model_check(module, cfg, must_take=must)
                except ModelViolation as mv:
                    p = vlib.write_replay(pid, {"kind": "model", "module": module, "cfg": cfg,
                                                "tlc_output_tail": mv.output[-6000:]})
                    violations.append((p, "specification-level violation in %s/%s" % (module, cfg)))
                    continue
                cov["states"] += r["stats"]["distinct"]
                cov["transitions"] += r["stats"]["generated"]
                cov["models"].append({"module": module, "cfg": cfg, "distinct_states": r["stats"]["distinct"],
                                      "states_generated": r["stats"]["generated"], "depth": r["stats"]["depth"],
                                      "wall_s": round(r["wall_s"], 1),
                                      "actions_taken": {k: v for k, v in r["coverage"].items() if v}})
        # (B)+(C) execute the real library and validate the recorded traces
        if replay:
            with open(replay) as f:
                payload = json.load(f)
            if payload.get("kind") == "model":
                r = vlib.model_check(payload["module"], payload["cfg"], expect_violation=True)
                if r["violated"]:
                    violations.append((replay, "specification-level violation repeats"))
                jobs = []
            else:
                jobs = check.replay_jobs(payload["rejection"]) or []
        else:
            jobs = check.jobs(tier, seed)
        agg = vlib.run_jobs(jobs, keep=keep) if jobs else {"events": 0, "states": 0, "transitions": 0, "rej": [],
                                                           "nrej": 0, "samples": [], "restarts": 0, "counters": {}, "jobs": 0, "kfn": []}
        cov["states"] += agg["states"]
        cov["transitions"] += agg["transitions"]
        cov["traces_validated_against_impl"] = agg["jobs"]
        cov["trace_events"] = agg["events"]
        cov["evaluations"] = agg["counters"].get("n_decided", agg["events"])
        if "n_distinct_nontrivial" in agg["counters"]:
            cov["distinct_nontrivial"] = agg["counters"]["n_distinct_nontrivial"]
        cov["counters"] = agg["counters"]
        cov["executor_restarts_after_abnormal_termination"] = agg["restarts"]
        cov["rule"] = check.rule
        for s in agg["samples"][:4]:
            cov["samples"].append(_shorten(s))
        cov.update(check.extra_coverage(tier, agg))

        harness = [r for r in agg["rej"] if "HARNESS" in r.get("props", [])]
        if harness:
            raise InfraError("harness self-check failed: %s" % json.dumps(harness[0])[:500])

        def is_known(k):
            return k != "none" and k in kf["open"] and kf["open"][k]["property"] == pid

        # rejections counted by the trace spec per (known-finding class, properties)
        for ent in agg["kfn"]:
            if pid in ent["props"] and is_known(ent["kf"]):
                known_hits[ent["kf"]] = known_hits.get(ent["kf"], 0) + ent["n"]
        mine = [r for r in agg["rej"] if pid in r.get("props", [])]
        total_mine = sum(1 for r in mine if r.get("kf", "none") == "none") + \
            sum(e["n"] for e in agg["kfn"] if pid in e["props"])
        fresh = [r for r in mine if not is_known(r.get("kf", "none"))]
        # confirm fresh rejections by re-executing just that input (a rejection is reported only if it repeats)
        seen = set()
        cand = []
        for r in fresh:
            key = (r.get("what"), _event_key(r))
            if key in seen:
                continue
            seen.add(key)
            cand.append(r)
            if len(cand) >= 20:
                break
        # a rejection is reported only if it repeats: all candidates are re-executed in parallel
        confirmed = {}
        if not replay and cand:
            rjobs = []
            for k, r in enumerate(cand):
                for j in (check.replay_jobs(r) or []):
                    j.name = "replay%d-%s" % (k, j.name)
                    j.sample = 0
                    rjobs.append(j)
            if rjobs:
                a2 = vlib.run_jobs(rjobs, keep=False)
                for x in a2["rej"]:
                    if pid in x.get("props", []):
                        confirmed[int(x["job"].split("-")[0][6:])] = True
        for k, r in enumerate(cand):
            if not replay and check.replay_jobs(r) and not confirmed.get(k):
                raise InfraError("rejection did not repeat on re-execution: %s" % json.dumps(r)[:800])
            p = vlib.write_replay(pid, {"kind": "trace", "property": pid, "rejection": r,
                                        "how": "bin/check %s --replay <this file>" % pid})
            violations.append((p, check.describe(r)))
        cov["rejected_for_this_property"] = total_mine
        cov["known_finding_hits"] = known_hits
        if not cov["samples"]:
            cov["samples"] = [m["module"] + "/" + str(m["cfg"]) for m in cov["models"]] or ["(none)"]
        cov["exhaustive"] = bool(check.exhaustive_note) and tier == "thorough"
        if check.exhaustive_note:
            cov["exhaustive_note"] = check.exhaustive_note
    except InfraError as e:
        log("INFRASTRUCTURE ERROR: %s" % e)
        return 2

    for k, n in sorted(known_hits.items()):
        print("KNOWN-FINDING: property=%s %s (%s; %d rejected events)" % (pid, k, kf["open"][k]["what"], n))
    for p, text in violations:
        print("VIOLATION property=%s replay=%s" % (pid, p))
        log("  " + text)
    if cov["states"] < 1:
        cov["states"] = 1
    if cov["transitions"] < 1:
        cov["transitions"] = 1
    if not replay and not os.environ.get("VERIF_NO_EVIDENCE") and not pid.startswith("X"):      # (bin/seed-run and bin/mutcheck run on a deliberately broken tree)
        vlib.write_evidence(pid, tier, seed, cov, time.time() - t0, len(violations),
                            getattr(check, "assumptions", []))
    log("%s %s: %d states, %d trace events, %d violations, %.0fs" %
        (pid, tier, cov["states"], cov.get("trace_events", 0), len(violations), time.time() - t0))
    return 1 if violations else 0


def _event_key(r):
    ev = r.get("event") or ""
    try:
        d = json.loads(ev)
        d.pop("i", None)
        g = None
        if r.get("what") == "group" and isinstance(d.get("g"), list) and r.get("k"):
            g = d["g"][r["k"] - 1]
        d.pop("g", None)
        d.pop("post", None)
        gk = [g.get(x) for x in ("d", "k", "res", "s")] if g else None
        return json.dumps([d, gk], sort_keys=True)[:3000]
    except Exception:
        return ev[:500]


def _shorten(s, n=700):
    try:
        d = json.loads(s)
        if isinstance(d, dict) and "g" in d and isinstance(d["g"], list) and len(d["g"]) > 3:
            d["g"] = d["g"][:3] + ["... %d more outcome groups" % (len(d["g"]) - 3)]
        return d
    except Exception:
        return s[:n]
