"""C20: concurrent use needs no locking.  Spec: Threads.tla; trace spec: TraceThreads.tla; executor: exec_threads (TSan)."""
import json

import vlib
from runner import Check

TSAN = ["-fsanitize=thread"]


def build():
    return vlib.build("exec_threads", san=TSAN, hooks=False)


class C20(Check):
    pid = "C20"
    technique = ("TLA+ model of unsynchronised threads running operations given by their memory footprints (Threads.tla), all interleavings "
                 "model-checked by TLC for NoConflictingAccess and ResultsEqualSequential (the shared-static-scratch configuration is the "
                 "failing negative control); the real library is run by K concurrent threads under ThreadSanitizer and TLC validates the "
                 "recorded per-thread results against the results of the same operations run alone")
    design_ref = "DESIGN.md section 5 (C20)"
    level_text = ("TLC enumerates every interleaving of the footprint model (3 threads x 2 operations quick, 4 x 3 thorough); on the code, 8-16 "
                  "threads execute a 60-operation catalogue (const members on shared strings and buffers; conversions, formatting incl. long "
                  "float renderings, number/text, codecs, streams, buffers on own objects) simultaneously, first use included, under "
                  "ThreadSanitizer, and every recorded result is decided by TLC against the sequential result")
    level_note = ("trusted: TLC/SANY, Json module, ThreadSanitizer's happens-before race detection (a report is independent of timing once "
                  "both accesses execute), the executor's recording code; bounded: the operation catalogue, the schedules the OS produced in "
                  "the executed runs (interleavings are enumerated exhaustively only on the model)")
    rule = ("K threads x R rounds x 60 operations per process (incl. user-defined literals of every width, each operation with literals of its own), every thread starting round 1 at the same operation (so first-use "
            "initialisation races are executed) and later rounds at random offsets; several processes with different seeds; the sequential "
            "reference is computed after the concurrent phase in the same process")
    assumptions = ["on the implementation, interleavings are whatever the scheduler produces; detection of conflicting accesses relies on ThreadSanitizer's "
                   "happens-before analysis, detection of wrong results on the recorded bytes",
                   "the executor is built with the verification hooks off (the hook's function-local static would itself be shared state)"]

    def models(self, tier):
        return [("Threads", "MC_Threads" if tier == "quick" else "MC_Threads_full")]

    def jobs(self, tier, seed):
        e = build()
        q = tier == "quick"
        J = []
        for i in range(8 if q else 32):
            k = [8, 16, 4, 12][i % 4]
            J.append(vlib.Job("c20-%d" % i, e, ["--threads", str(k), "--rounds", "20" if q else "200", "--seed", str(seed * 100 + i)],
                              "TraceThreads", env={"TSAN_OPTIONS": "halt_on_error=1:second_deadlock_stack=1"}))
        return J

    def replay_jobs(self, rej):
        if not rej.get("args"):
            return None
        # a race needs the schedule to repeat: re-run the same process a few times
        return [vlib.Job("replay-threads-%d" % i, build(), rej["args"], "TraceThreads", env={"TSAN_OPTIONS": "halt_on_error=1"}) for i in range(6)]

    def describe(self, rej):
        try:
            d = json.loads(rej["event"])
            if d.get("e") == "Abnormal":
                return "abnormal termination under ThreadSanitizer (%s: %s) - see the executor's stderr for the report" % (d.get("kind"), d.get("detail"))
            return "%s: thread %s round %s operation %s returned %s" % (rej.get("what"), d.get("t"), d.get("round"), d.get("op"), d.get("r", "")[:80])
        except Exception:
            return (rej.get("event") or "")[:300]


CHECKS = {"C20": C20}
