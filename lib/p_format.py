"""C10-C13, C17: format parser, rendering, integer/float text, sinks.
Spec: Format.tla, NumText.tla (+ MC_Format); trace spec: TraceFormat.tla; executor: exec_format."""
import json
import os

import vlib
from runner import Check

TOKENS = "123,125,95,46,38,48,53,120,99,32,45,97,195"


def sharded(name, exe, args, n, env=None):
    return [vlib.Job("%s-%d" % (name, i), exe, args + ["--shard", "%d/%d" % (i, n)], "TraceFormat", env=env) for i in range(n)]


class FmtCheck(Check):
    technique = ("TLA+ specification of the format mini-language (parser machine with read sets, dispatch, rendering, sinks: Format.tla) "
                 "model-checked by TLC; TLC trace validation of recorded outcomes of every sink on enumerated format strings and argument lists")
    design_ref = "DESIGN.md section 5 (C10-C13, C17)"
    level_note = ("trusted: TLC/SANY, Json module, executor recording code, ASan/UBSan (format strings are exact-size heap copies), glibc "
                  "snprintf/strto* where the statement names the C library as the reference; bounded: token strings up to the stated "
                  "length, sampled field combinations, boundary and random values")
    assumptions = ["numerals inside a format specifier are modelled as static_cast<int>(strtol(...)): exact for every length, incl. the "
                   "2^31/2^32 wrap-arounds and saturation at LONG_MAX/LONG_MIN; widths that narrow to more than 2000 are not generated",
                   "char8_t arguments with the character class are exercised for ASCII values only",
                   "a char16_t output stream cannot carry the unit 0xFFFF (eof of its traits): such outputs are not compared"]

    def replay_jobs(self, rej):
        if not rej.get("exe") or not rej.get("args"):
            return None
        return [vlib.Job("replay-format", vlib.build("exec_format"), rej["args"], "TraceFormat")]

    def describe(self, rej):
        try:
            d = json.loads(rej["event"])
            if d.get("e") == "Abnormal":
                return "abnormal termination (%s: %s) during %s" % (d.get("kind"), d.get("detail"), json.dumps(d.get("during"))[:400])
            sub = None
            k = rej.get("k")
            if k and "sinks" in d:
                sub = d["sinks"][k - 1]
            elif k and "r" in d:
                sub = d["r"][k - 1]
            head = {x: v for x, v in d.items() if x not in ("sinks", "r", "i")}
            if "f" in head:
                head["f_text"] = bytes(head["f"]).decode("latin1")
            return "%s %s -> %s" % (rej.get("what"), json.dumps(head)[:500], json.dumps(sub)[:300])
        except Exception:
            return (rej.get("event") or "")[:300]


class C10(FmtCheck):
    pid = "C10"
    level_text = ("the parser is specified as a machine over the bytes of the format string with the indices each step reads; TLC checks on all "
                  "token strings (every prefix included) that it never reads past the terminator and always ends in a documented outcome; the "
                  "same strings are executed as exact-size heap copies under ASan through ST::format and TLC decides every recorded outcome")
    rule = ("all strings over 13 parser token classes { } _ . & 0 5 x c space - a 0xC3 up to length 4 (quick) / 5 (thorough), each with "
            "argument lists of 0..3 arguments, plus null format strings, plus seeded random byte strings up to 40 bytes biased to the special "
            "characters (digit runs that can be a width stay below 1000); directed numeric fields (widths, precisions, argument references at the "
            "2^31 / 2^32 / LONG_MAX boundaries, signs, blanks, widths 246..1025 behind existing output); specifiers of 30..200 repeated flags "
            "ending validly, with an unexpected byte or at the terminator; every width x radix x flag x padding layout without the other sinks; "
            "float fields incl. negative precisions; outcome class and output of ST::format and the other sinks recorded")

    def models(self, tier):
        return [("MC_Format", "MC_Format" if tier == "quick" else "MC_Format_full")]

    def jobs(self, tier, seed):
        e = vlib.build("exec_format")
        q = tier == "quick"
        J = sharded("c10-tokens", e, ["--gen", "tokens", "--tokens", TOKENS, "--maxlen", "4" if q else "5"] + ([] if q else ["--heavy"]), 12 if q else 64)
        J += sharded("c10-numfields", e, ["--gen", "numfields"], 2)
        J += sharded("c10-layouts", e, ["--gen", "layouts", "--nosinks"], 4)          # every width x radix x flag x padding: no crash, no overrun
        J += sharded("c10-floats", e, ["--gen", "floats", "--count", "2000" if q else "100000", "--seed", str(seed)], 2 if q else 8)
        J += sharded("c10-rand", e, ["--gen", "randbytes", "--count", "20000" if q else "400000", "--seed", str(seed)], 4 if q else 32)
        return J


class C11(FmtCheck):
    pid = "C11"
    level_text = ("rendering (sign, prefix, digits in any radix from 64-bit limbs, three padding layouts, precision cut, character class, "
                  "sequential vs &N dispatch) is specified in TLA+; directed layouts for every integer type at boundary values, strings in "
                  "11 argument forms, booleans, code points and argument orders plus seeded random field combinations are executed and TLC "
                  "decides the output bytes")
    rule = ("13 integer/character argument types x 29 boundary values x 26 field specifications; 11 string argument forms x lengths 0..5 x "
            "widths x precisions x alignments x pads; booleans; 19 code points x 9 types through {c}; 10 argument-order patterns; seeded random "
            "fields assembled from alignment/pad/width/precision/#/+/class/&N components in canonical or shuffled order with random arguments "
            "(string arguments incl. embedded NUL and 200-character texts of multi-byte characters); every width 1..14 x radix x #/+ x "
            "8 padding styles (incl. the 0 flag combined with a pad character) for six values; zero-padded binary/octal/hex of 64-bit extremes")

    def models(self, tier):
        return [("MC_Format", "MC_Format" if tier == "quick" else "MC_Format_full")]

    def jobs(self, tier, seed):
        e = vlib.build("exec_format")
        q = tier == "quick"
        J = sharded("c11-layouts", e, ["--gen", "layouts"], 8 if q else 16)
        J += sharded("c11-numfields", e, ["--gen", "numfields"], 2)
        J += sharded("c11-fields", e, ["--gen", "fields", "--count", "30000" if q else "600000", "--seed", str(seed)], 8 if q else 48)
        return J


class C12(FmtCheck):
    pid = "C12"
    level_text = ("canonical digit strings are defined in TLA+ by limb division for bases 2..36; every 16-bit value (exhaustive) and boundary/"
                  "random wider values are printed by from_int/from_uint, ST::format and string_stream and parsed back; arbitrary text is parsed "
                  "by every to_* member and TLC decides values (C narrowing of the logged strtol-family result) and the ok/full_match flags")
    rule = ("all 65,536 values of short and unsigned short in bases {2,8,10,16,36} (quick) / all 35 bases x both cases (thorough); for all 8 "
            "integer types: 0, 2^k-1, 2^k, 2^k+1, b^j-1, b^j, b^j+1, most negative values, in all 35 bases; seeded random values; 53 fixed and "
            "seeded random texts (white space, signs, prefixes, overflow, embedded NUL) x 6-9 bases through 8 to_* members and their "
            "no-result overloads, the conversion_result object being reused and primed with the opposite flags before every call; executed under UBSan (the statement excludes undefined behaviour)")
    exhaustive_note = "thorough tier enumerates every 16-bit value in every base and letter case"

    def models(self, tier):
        return [("MC_NumText", "MC_NumText")]

    def jobs(self, tier, seed):
        e = vlib.build("exec_format")
        q = tier == "quick"
        J = []
        if q:
            J += sharded("c12-all16", e, ["--gen", "ints", "--mode", "all16"], 12)
            J += sharded("c12-bounds", e, ["--gen", "ints", "--mode", "bounds"], 16)
        else:
            for lo in range(0, 65536, 2048):
                J += sharded("c12-all16-%d" % lo, e, ["--gen", "ints", "--mode", "all16"], 1,
                             env={"INT_LO": str(lo), "INT_HI": str(lo + 2048), "INT_ALLBASES": "1"})
            J += sharded("c12-bounds", e, ["--gen", "ints", "--mode", "bounds"], 32)
        J += sharded("c12-rand", e, ["--gen", "ints", "--mode", "random", "--count", "40000" if q else "1000000", "--seed", str(seed)], 4 if q else 32)
        J += sharded("c12-parse", e, ["--gen", "parse", "--count", "20000" if q else "400000", "--seed", str(seed)], 4 if q else 32)
        return J


class C13(FmtCheck):
    pid = "C13"
    level_text = ("the C library rendering is an environment input (the statement defines correctness as equality with it); TLC decides the "
                  "library's own logic: the printf conversion derived from the parsed field (re-derived in TLA+ and compared with the one the "
                  "executor used), sign flag, precision, padding side and character, from_float/from_double/string_stream equal to the plain "
                  "rendering, strtod/strtof flags, and totality for renderings of any length")
    rule = ("directed doubles/floats (0, -0, subnormals, DBL_MIN/MAX, FLT_MIN/MAX, powers of ten and two, inf, nan) x notations g f e E x "
            "precisions {none,0,1,6,17,40,60,400} x sign flag x widths {5,12,80} x alignments x pad; seeded random bit patterns with random "
            "field components; explicit negative precisions; 27 fixed and seeded random texts and 180 texts at / just above the midpoint of two "
            "adjacent floats through to_float/to_double with a reused, primed conversion_result")

    def models(self, tier):
        return [("MC_Format", "MC_Format")]

    def jobs(self, tier, seed):
        e = vlib.build("exec_format")
        q = tier == "quick"
        J = sharded("c13-floats", e, ["--gen", "floats", "--count", "20000" if q else "500000", "--seed", str(seed)] + ([] if q else ["--heavy"]),
                    8 if q else 48)
        # string_stream << float/double when the %g text arrives 2 bytes before .. 2 bytes after a capacity (256, 512, 1024):
        # real stream objects with a history, decided by TraceStream.tla
        import p_stream
        cs = os.path.join(vlib.OUT, "sched", "stream-capedge-float-%d.txt" % os.getpid())
        os.makedirs(os.path.dirname(cs), exist_ok=True)
        p_stream.capacity_edge_schedule(cs, False, floats_only=True)
        J.append(vlib.Job("c13-capedge", vlib.build("exec_stream"), ["--schedule", cs], "TraceStream"))
        return J

    def replay_jobs(self, rej):
        if rej.get("spec") == "TraceStream":
            import p_stream
            return p_stream.StreamCheck().replay_jobs(rej)
        return FmtCheck.replay_jobs(self, rej)

    def describe(self, rej):
        if rej.get("spec") == "TraceStream":
            import p_stream
            return p_stream.StreamCheck().describe(rej)
        return FmtCheck.describe(self, rej)


class C17(FmtCheck):
    pid = "C17"
    level_text = ("each sink is a function of the chunk list the specified parser emits; for every format call accepted by ST::format the "
                  "recorded output of ST::printf(FILE*), writef to char/wchar_t/char16_t/char32_t streams, format_latin_1 and the _stfmt "
                  "literal is decided by TLC against its sink model, and ST::string stream insertion/extraction against transcoding")
    rule = ("every successful format call of the C10 token sweep, the C11 directed layouts and random fields is run through 11 sinks; "
            "(incl. narrow and wide streams with a pending width and fill); stream insertion into 4 stream types and extraction from "
            "char/wchar_t streams for seeded random strings over ASCII, white space, NUL and 2/3/4-byte characters, also into a string "
            "that already holds a token and under noskipws")

    def models(self, tier):
        return [("MC_Format", "MC_Format" if tier == "quick" else "MC_Format_full")]

    def jobs(self, tier, seed):
        e = vlib.build("exec_format")
        q = tier == "quick"
        J = sharded("c17-tokens", e, ["--gen", "tokens", "--tokens", TOKENS, "--maxlen", "4" if q else "5"], 12 if q else 64)
        J += sharded("c17-layouts", e, ["--gen", "layouts"], 8 if q else 16)
        J += sharded("c17-fields", e, ["--gen", "fields", "--count", "20000" if q else "400000", "--seed", str(seed + 7)], 8 if q else 48)
        J += sharded("c17-streamio", e, ["--gen", "streamio", "--count", "5000" if q else "200000", "--seed", str(seed)], 2 if q else 16)
        return J


CHECKS = {"C10": C10, "C11": C11, "C12": C12, "C13": C13, "C17": C17}
