"""C14 C15: hex / base64.  Spec: Codecs.tla (+ MC_Codecs); trace spec: TraceCodecs.tla; executor: exec_codecs."""
import json

import vlib
from runner import Check

B64_ALPHA = "65,47,61,33,0,128"
HEX_ALPHA = "-1,48,57,97,70,103,71,32,0,128"


def sharded(name, exe, args, n):
    return [vlib.Job("%s-%d" % (name, i), exe, args + ["--shard", "%d/%d" % (i, n)], "TraceCodecs") for i in range(n)]


class CodecCheck(Check):
    technique = ("TLA+ reference codecs and decoder contract (Codecs.tla); the base64 decoder loop as written is model-checked against the "
                 "reference with its write indices; TLC trace validation of recorded encodings, decoder outcomes, return values and buffer contents")
    design_ref = "DESIGN.md section 5 (C14, C15)"
    level_note = ("trusted: TLC/SANY, Json module, executor recording code, ASan (caller buffers are exact-size heap blocks); bounded: the "
                  "enumerated byte arrays / texts and output sizes")
    assumptions = ["bytes written into a caller buffer before an invalid character is detected are not constrained beyond staying within output_size (ASan)"]

    def replay_jobs(self, rej):
        if not rej.get("exe") or not rej.get("args"):
            return None
        return [vlib.Job("replay-codecs", vlib.build("exec_codecs"), rej["args"], "TraceCodecs")]

    def describe(self, rej):
        try:
            d = json.loads(rej["event"])
            if d.get("e") == "Abnormal":
                return "abnormal termination (%s: %s) during %s" % (d.get("kind"), d.get("detail"), json.dumps(d.get("during"))[:300])
            return "%s: %s" % (rej.get("what"), json.dumps(d)[:600])
        except Exception:
            return (rej.get("event") or "")[:300]


class C14(CodecCheck):
    pid = "C14"
    level_text = ("the encoders are defined by bit fields in TLA+ and TLC proves the round trips on all byte arrays over a boundary alphabet; every "
                  "byte value in every group position, every byte pair (quick) / every one of the 2^24 three-byte groups (thorough), every length "
                  "0..200 and random arrays are encoded by the library, decoded back through both decoder forms, and decided by TLC")
    rule = ("every byte value in each position of a 3-byte group x 4 backgrounds; lengths 0..200; all arrays over {00,01,3F,40,7F,80,AA,FF} up to "
            "length 3; all 65,536 byte pairs at group positions (0,1) and (1,2); seeded random arrays up to 64 bytes; thorough: all 16,777,216 groups")
    exhaustive_note = "thorough tier enumerates all 2^24 three-byte groups (the full-group arithmetic of both codecs)"

    def models(self, tier):
        return [("MC_Codecs", "MC_Codecs" if tier == "quick" else "MC_Codecs_full")]

    def jobs(self, tier, seed):
        e = vlib.build("exec_codecs")
        q = tier == "quick"
        J = sharded("c14-enc", e, ["--gen", "enc", "--alpha", "0,1,63,64,127,128,170,255", "--maxlen", "3", "--count", "20000" if q else "200000", "--seed", str(seed)], 4 if q else 16)
        step = 8192
        for lo in range(0, 65536, step):
            J.append(vlib.Job("c14-pairs-%d" % lo, e, ["--gen", "pairs", "--lo", str(lo), "--hi", str(lo + step)], "TraceCodecs"))
        if not q:
            step = 1 << 16
            for lo in range(0, 1 << 24, step):
                J.append(vlib.Job("c14-groups-%x" % lo, e, ["--gen", "groups", "--lo", str(lo), "--hi", str(lo + step)], "TraceCodecs"))
        return J


class C15(CodecCheck):
    pid = "C15"
    level_text = ("validity and the caller-buffer contract are defined in TLA+; TLC proves that the decoder loop as written accepts exactly the valid "
                  "texts and never writes beyond output_size on all texts over {A,/,=,!,NUL,80} up to length 8; the same texts are decoded by the "
                  "library into exact-size buffers for every output_size and with a null output, and TLC decides every return value and content")
    rule = ("all base64 texts over {A,/,=,!,NUL,0x80} up to length 5 and all length-8 texts over {A,=,!} (quick) / up to length 8 over 6 symbols "
            "(thorough); all hex texts over {0,9,a,F,g,G,space,NUL,0x80} up to length 4 (quick) / 6 (thorough); valid texts of every length (hex 2..48, "
            "base64 4..96 with each padding) and the same with one character replaced by an invalid one at every position; seeded random texts; each through "
            "the allocating decoder, the null-output call and every output_size from 0 to two above the largest possible result")

    def models(self, tier):
        return [("MC_Codecs", "MC_Codecs" if tier == "quick" else "MC_Codecs_full")]

    def jobs(self, tier, seed):
        e = vlib.build("exec_codecs")
        q = tier == "quick"
        J = sharded("c15-b64", e, ["--gen", "dec", "--alpha", B64_ALPHA, "--maxlen", "5" if q else "8"], 2 if q else 64)
        if q:
            J += sharded("c15-b64-8", e, ["--gen", "dec", "--alpha", "65,61,33", "--minlen", "8", "--maxlen", "8"], 2)
        J += sharded("c15-hex", e, ["--gen", "dec", "--alpha", HEX_ALPHA, "--maxlen", "4" if q else "6"], 2 if q else 24)
        J += sharded("c15-pos", e, ["--gen", "decpos"], 4 if q else 8)
        J += sharded("c15-rand", e, ["--gen", "decrand", "--count", "20000" if q else "400000", "--seed", str(seed)], 4 if q else 16)
        return J


CHECKS = {"C14": C14, "C15": C15}
