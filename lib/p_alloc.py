"""C19: allocation failure propagates cleanly.  Aggregates the fault jobs of the pool executors."""
import p_buffer
from runner import Check


class C19(p_buffer.BufferCheck):
    pid = "C19"
    level_text = ("allocation failure is an action of the pool specifications (target keeps its old value or becomes empty, nothing "
                  "else changes, nothing leaks); every allocating edge of the TLC state graph is executed with that allocation made "
                  "to throw, inside longer histories, and TLC validates the recorded post-state of every object and the heap")
    rule = ("schedules covering every edge of MC_BufferPool with WithFaults=TRUE (each allocating operation also executed with its "
            "allocation failing, one-shot, in the replacement operator new) x 4 element types, plus seeded random walks with random "
            "injected failures; after the fault every object is read, and later assigned to and destroyed by the rest of the schedule")

    def models(self, tier):
        return [("MC_BufferPool", "MC_BufferPool_2" if tier == "quick" else "MC_BufferPool_3"),
                ("MC_BufferImpl", "MC_BufferImpl" if tier == "quick" else "MC_BufferImpl_full")]

    def jobs(self, tier, seed):
        return p_buffer.fault_jobs(self, tier, seed)


CHECKS = {"C19": C19}
