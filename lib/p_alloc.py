"""C19: allocation failure propagates cleanly.  Aggregates the fault jobs of the pool executors."""
import p_buffer
import p_stream
import p_strpool
from runner import Check


class C19(p_buffer.BufferCheck):
    pid = "C19"
    level_text = ("allocation failure is an action of the pool specifications (target keeps its old value or becomes empty, nothing "
                  "else changes, nothing leaks); every allocating edge of the TLC state graph is executed with that allocation made "
                  "to throw, inside longer histories, and TLC validates the recorded post-state of every object and the heap")
    rule = ("schedules covering every edge of MC_BufferPool with WithFaults=TRUE (each allocating operation also executed with its "
            "allocation failing, one-shot, in the replacement operator new) x 4 element types, plus seeded random walks with random "
            "injected failures; after the fault every object is read, and later assigned to and destroyed by the rest of the schedule")

    def models(self, tier):
        return [("MC_BufferPool", "MC_BufferPool_2" if tier == "quick" else "MC_BufferPool_3"),
                ("MC_BufferImpl", "MC_BufferImpl" if tier == "quick" else "MC_BufferImpl_full"),
                ("MC_Stream", "MC_Stream_2" if tier == "quick" else "MC_Stream_3"),
                ("StreamImpl", "MC_StreamImpl" if tier == "quick" else "MC_StreamImpl_full"),
                ("MC_StringPool", "MC_StringPool_2" if tier == "quick" else "MC_StringPool_3")]

    def jobs(self, tier, seed):
        J = p_buffer.fault_jobs(self, tier, seed)
        self.buffer_gen = self.gen_info
        sc = p_stream.StreamCheck()
        J += p_stream.fault_jobs(sc, tier, seed)
        self.stream_gen = sc.gen_info
        sp = p_strpool.StrPoolCheck()
        J += p_strpool.fault_jobs(sp, tier, seed)
        self.string_gen = sp.gen_info
        return J

    def replay_jobs(self, rej):
        if rej.get("spec") == "TraceStream":
            return p_stream.StreamCheck().replay_jobs(rej)
        if rej.get("spec") == "TraceStrPool":
            return p_strpool.StrPoolCheck().replay_jobs(rej)
        return p_buffer.BufferCheck.replay_jobs(self, rej)

    def describe(self, rej):
        if rej.get("spec") == "TraceStream":
            return p_stream.StreamCheck().describe(rej)
        if rej.get("spec") == "TraceStrPool":
            return p_strpool.StrPoolCheck().describe(rej)
        return p_buffer.BufferCheck.describe(self, rej)

    def extra_coverage(self, tier, agg):
        return {"schedule_generation": {"buffers": getattr(self, "buffer_gen", None), "streams": getattr(self, "stream_gen", None),
                                        "strings": getattr(self, "string_gen", None)}}


CHECKS = {"C19": C19}
