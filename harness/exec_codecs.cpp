// Executor for hex/base64 (C14, C15): records encodings, both decoders'
// outcomes, return values and the bytes found in caller-supplied buffers.
#include "common/verif.h"
#include "common/alloc_shim.inc"

#include <string_theory/string>
#include <string_theory/codecs>
#include <functional>

using namespace vf;
using ST::string;
typedef std::string Bytes;

static void assert_hook(const char *file, int line, const char *msg) { throw assert_failure{file, line, msg}; }
static std::string jbytes(const char *p, size_t n) { Out o; put_units(o, p, n); return o.b; }
static std::string jbytes(const Bytes &b) { return jbytes(b.data(), b.size()); }
static std::string jstr(const string &s) { return jbytes(s.c_str(), s.size()); }

struct Shard { long long idx = 0, shard = 0, nshards = 1, from = 0;
    bool take() { long long i = idx++; return i % nshards == shard && i >= from; } };
static Shard SH;

struct R { std::string res = "ok", v = "[]"; };
template <class F> static R guard(F f) {
    R r;
    try { r.v = f(); }
    catch (const ST::codec_error &e) { r.res = "codec_error"; }
    catch (const std::invalid_argument &e) { r.res = "invalid_argument"; }
    catch (const std::bad_alloc &) { r.res = "bad_alloc"; }
    catch (const assert_failure &a) { r.res = "assert"; }
    catch (const std::exception &e) { r.res = demangle(typeid(e).name()); }
    return r;
}
static void put_r(Out &o, const char *k, const R &r) { o.c(',').k(k).s("{").k("res").q(r.res).c(',').k("v").s(r.res == "ok" ? r.v : "[]").c('}'); }

// decode through the caller-buffer form into an exact-size block (ASan redzone behind it)
// (`off`: the output starts 0..3 bytes into the block, so that every alignment of the caller's pointer occurs; the END of
//  the output is still the end of the block)
static std::string buf_decode(bool hex, const string &text, bool null_out, size_t outsize, size_t claimed = 0, size_t off = 0) {
    Out o;
    char *blk = null_out ? nullptr : (char *)malloc((outsize ? outsize : 1) + off);
    char *buf = blk ? blk + off : nullptr;
    if (blk) memset(blk, 0xEE, (outsize ? outsize : 1) + off);
    // `claimed`: the caller states a capacity above the real (sufficient) one, e.g. SIZE_MAX for "unbounded"
    ST_ssize_t ret = hex ? ST::hex_decode(text, buf, claimed ? claimed : outsize) : ST::base64_decode(text, buf, claimed ? claimed : outsize);
    o.s("{").k("ret").i((long long)ret).c(',').k("buf");
    if (buf && ret >= 0 && (size_t)ret <= outsize) put_units(o, buf, (size_t)ret); else o.s("[]");
    o.c('}');
    free(blk);
    return o.b;
}

static void op_enc(const Bytes &data) {
    if (!SH.take()) return;
    Out h; h.s("{").k("e").q("enc").c(',').k("i").i(SH.idx - 1).c(',').k("data").s(jbytes(data));
    set_cur(SH.idx - 1, h.b + "}");
    Exact<char> ex(data.data(), data.size());
    string hx, b64;
    R r1 = guard([&] { hx = ST::hex_encode(ex.p, ex.n); return jstr(hx); });
    R r2 = guard([&] { return jstr(ST::hex_encode(ST::char_buffer(ex.p, ex.n))); });
    R r3 = guard([&] { b64 = ST::base64_encode(ex.p, ex.n); return jstr(b64); });
    R r4 = guard([&] { return jstr(ST::base64_encode(ST::char_buffer(ex.p, ex.n))); });
    // decode what the library produced, through both decoder forms, and the upper-cased hex
    R d1 = guard([&] { ST::char_buffer b = ST::hex_decode(hx); return jbytes(b.data(), b.size()); });
    R d2 = guard([&] { return buf_decode(true, hx, false, data.size(), 0, (size_t)(SH.idx % 4)); });
    R d3 = guard([&] { ST::char_buffer b = ST::hex_decode(hx.to_upper()); return jbytes(b.data(), b.size()); });
    R d4 = guard([&] { ST::char_buffer b = ST::base64_decode(b64); return jbytes(b.data(), b.size()); });
    R d5 = guard([&] { return buf_decode(false, b64, false, data.size(), 0, (size_t)((SH.idx / 4) % 4)); });
    R d6 = guard([&] { return buf_decode(false, b64, true, 0); });
    R d7 = guard([&] { return buf_decode(true, hx, true, 0); });
    Out &o = out();
    o.s(h.b);
    put_r(o, "hex", r1); put_r(o, "hex_buf", r2); put_r(o, "b64", r3); put_r(o, "b64_buf", r4);
    put_r(o, "hex_back", d1); put_r(o, "hex_back_cb", d2); put_r(o, "hex_upper_back", d3);
    put_r(o, "b64_back", d4); put_r(o, "b64_back_cb", d5); put_r(o, "b64_size_null", d6); put_r(o, "hex_size_null", d7);
    // short data: the caller-buffer decoders with the output at every alignment (offsets 0..3 into a block)
    o.c(',').k("hex_cb_al").c('[');
    if (data.size() <= 9) for (size_t off = 0; off < 4; ++off) { if (off) o.c(','); try { o.s(buf_decode(true, hx, false, data.size(), 0, off)); } catch (...) { o.s("{\"ret\":-2,\"buf\":[]}"); } }
    o.c(']').c(',').k("b64_cb_al").c('[');
    if (data.size() <= 9) for (size_t off = 0; off < 4; ++off) { if (off) o.c(','); try { o.s(buf_decode(false, b64, false, data.size(), 0, off)); } catch (...) { o.s("{\"ret\":-2,\"buf\":[]}"); } }
    o.c(']');
    o.s("}\n"); o.maybe_flush();
}

// Large inputs (size arithmetic of the encoders): the event carries sizes, the padding tail and whether the
// decoders returned the original bytes - not the bytes themselves (hundreds of kilobytes per event).
static void op_encbig(size_t n) {
    if (!SH.take()) return;
    Out h; h.s("{").k("e").q("encbig").c(',').k("i").i(SH.idx - 1).c(',').k("n").i((long long)n);
    set_cur(SH.idx - 1, h.b + "}");
    Bytes data(n, '\0'); for (size_t i = 0; i < n; ++i) data[i] = (char)((i * 131 + 7) & 0xFF);
    Exact<char> ex(data.data(), data.size());
    Out &o = out();
    o.s(h.b);
    try {
        string hx = ST::hex_encode(ex.p, ex.n), b64 = ST::base64_encode(ex.p, ex.n);
        ST::char_buffer hb = ST::hex_decode(hx), bb = ST::base64_decode(b64);
        std::vector<char> cb(n + 1);
        ST_ssize_t r1 = ST::base64_decode(b64, cb.data(), n); bool same_cb = r1 == (ST_ssize_t)n && memcmp(cb.data(), data.data(), n) == 0;
        ST_ssize_t r2 = ST::hex_decode(hx, cb.data(), n); bool same_hcb = r2 == (ST_ssize_t)n && memcmp(cb.data(), data.data(), n) == 0;
        size_t t = b64.size() < 4 ? b64.size() : 4;
        o.c(',').k("res").q("ok").c(',').k("hexlen").i((long long)hx.size()).c(',').k("b64len").i((long long)b64.size())
         .c(',').k("tail").s(jbytes(Bytes(b64.c_str() + b64.size() - t, t)))
         .c(',').k("hex_back").i(hb.size() == n && memcmp(hb.data(), data.data(), n) == 0).c(',').k("b64_back").i(bb.size() == n && memcmp(bb.data(), data.data(), n) == 0)
         .c(',').k("b64_back_cb").i(same_cb).c(',').k("hex_back_cb").i(same_hcb)
         .c(',').k("b64_null").i((long long)ST::base64_decode(b64, nullptr, 0)).c(',').k("hex_null").i((long long)ST::hex_decode(hx, nullptr, 0));
    } catch (const std::exception &e) { o.c(',').k("res").q(demangle(typeid(e).name())); }
    o.s("}\n"); o.maybe_flush();
}

static void op_dec(bool hex, const Bytes &text) {
    if (!SH.take()) return;
    Out h; h.s("{").k("e").q("dec").c(',').k("i").i(SH.idx - 1).c(',').k("kind").q(hex ? "hex" : "b64").c(',').k("text").s(jbytes(text));
    set_cur(SH.idx - 1, h.b + "}");
    string s = string::from_validated(text.data(), text.size());
    R a = guard([&] { ST::char_buffer b = hex ? ST::hex_decode(s) : ST::base64_decode(s); return jbytes(b.data(), b.size()); });
    Out &o = out();
    o.s(h.b); put_r(o, "alloc", a);
    // caller-buffer form: null output, and every output_size from 0 to a little above the largest possible result
    size_t top = (text.size() / (hex ? 2 : 4)) * (hex ? 1 : 3) + 2;
    o.c(',').k("null").s(buf_decode(hex, s, true, 0)).c(',').k("sized").c('[');
    for (size_t sz = 0; sz <= top; ++sz) { if (sz) o.c(','); o.s(buf_decode(hex, s, false, sz, 0, (size_t)((SH.idx + sz) % 4))); }
    o.s("]").c(',').k("huge").c('[').s(buf_decode(hex, s, false, top, (size_t)-1)).c(',').s(buf_decode(hex, s, false, top, ((size_t)-1 >> 1) + 1)).s("]}\n"); o.maybe_flush();
}

static std::vector<long long> parse_list(const char *s) {
    std::vector<long long> v; if (!s) return v;
    while (*s) { char *e; long long x = strtoll(s, &e, 0); if (e == s) break; v.push_back(x); s = e; if (*s == ',') ++s; }
    return v;
}
static void all_seqs(const std::vector<long long> &alpha, int minlen, int maxlen, const std::function<void(const Bytes &)> &f) {
    Bytes cur;
    std::function<void(int)> rec = [&](int len) {
        if ((int)cur.size() == len) { f(cur); return; }
        for (long long a : alpha) { cur.push_back((char)a); rec(len); cur.pop_back(); }
    };
    for (int len = minlen; len <= maxlen; ++len) rec(len);
}

int main(int argc, char **argv) {
    install_handlers();
    _ST_PRIVATE::verif_assert_hook() = assert_hook;
    std::string gen = "enc"; std::vector<long long> alpha; int maxlen = 3, minlen = 0; long long count = 1000, lo = 0, hi = 0;
    uint64_t seed = (uint64_t)env_ll("VERIF_SEED", 1);
    for (int a = 1; a < argc; ++a) {
        std::string k = argv[a]; const char *v = a + 1 < argc ? argv[a + 1] : "";
        if (k == "--gen") { gen = v; ++a; } else if (k == "--alpha") { alpha = parse_list(v); ++a; }
        else if (k == "--maxlen") { maxlen = atoi(v); ++a; } else if (k == "--minlen") { minlen = atoi(v); ++a; }
        else if (k == "--count") { count = atoll(v); ++a; }
        else if (k == "--lo") { lo = strtoll(v, 0, 0); ++a; } else if (k == "--hi") { hi = strtoll(v, 0, 0); ++a; }
        else if (k == "--seed") { seed = strtoull(v, 0, 0); ++a; }
        else if (k == "--shard") { sscanf(v, "%lld/%lld", &SH.shard, &SH.nshards); ++a; }
        else if (k == "--from") { SH.from = atoll(v); ++a; }
        else { fprintf(stderr, "unknown arg %s\n", k.c_str()); return 2; }
    }
    Out &o = out();
    o.s("{").k("e").q("Platform").c(',').k("i").i(-1).s("}\n");
    Rng rng(seed);
    if (gen == "enc") {
        // every byte value in every position of a 3-byte group with four backgrounds
        for (int pos = 0; pos < 3; ++pos) for (int v = 0; v < 256; ++v) for (int bg : {0x00, 0xFF, 0xAA, 0x55}) { Bytes b(3, (char)bg); b[pos] = (char)v; op_enc(b); }
        // every length across the small-string limit of the results
        for (int n = 0; n <= 200; ++n) { Bytes b; for (int i = 0; i < n; ++i) b.push_back((char)(i * 37 + n)); op_enc(b); }
        // runs of one repeated byte (zero pages, 0xFF fill) of 6..40 bytes at every offset 0..9 inside other data
        for (int v : std::vector<int>{0x00, 0xFF, 0x30, 0x80}) for (int run : std::vector<int>{6, 7, 8, 9, 15, 16, 17, 24, 32, 40}) for (int off = 0; off <= 9; ++off) {
            Bytes b; for (int i = 0; i < off; ++i) b.push_back((char)(0x11 * (i + 1))); b.append((size_t)run, (char)v); for (int i = 0; i < (off * 3) % 7; ++i) b.push_back((char)(0xA0 + i)); op_enc(b);
        }
        for (size_t n : {(size_t)1000, (size_t)4097, (size_t)65535, (size_t)65536, (size_t)131069, (size_t)131070, (size_t)131071, (size_t)131072, (size_t)131073,
                         (size_t)262142, (size_t)262143, (size_t)262144, (size_t)393214, (size_t)393215, (size_t)393216, (size_t)1048577, (size_t)3000002}) op_encbig(n);
        if (!alpha.empty()) all_seqs(alpha, 0, maxlen, op_enc);
        for (long long k = 0; k < count; ++k) { Bytes b; int n = (int)rng.below(65); for (int i = 0; i < n; ++i) b.push_back((char)rng.below(256)); op_enc(b); }
    } else if (gen == "pairs") {
        // all byte pairs at positions (0,1) and (1,2) of a group
        for (long long p = lo; p < hi; ++p) { Bytes b = {(char)(p >> 8), (char)(p & 0xFF), (char)0x5A}; op_enc(b); Bytes c = {(char)0xA5, (char)(p >> 8), (char)(p & 0xFF)}; op_enc(c); }
    } else if (gen == "groups") {
        // all 2^24 three-byte groups in [lo, hi)
        for (long long p = lo; p < hi; ++p) { Bytes b = {(char)(p >> 16), (char)((p >> 8) & 0xFF), (char)(p & 0xFF)}; op_enc(b); }
    } else if (gen == "dec") {
        bool hex = alpha.empty() ? false : (alpha[0] == -1);
        if (hex) alpha.erase(alpha.begin());
        all_seqs(alpha, minlen, maxlen, [&](const Bytes &t) { op_dec(hex, t); });
    } else if (gen == "decpos") {
        // longer texts: a VALID text of every length (hex 2..48, base64 4..96 with each padding) with ONE character
        // replaced by an invalid one at every position - and the valid texts themselves
        static const char hd[] = "0123456789abcdefABCDEF";
        for (int n = 2; n <= 48; n += 2) {
            Bytes t; for (int i = 0; i < n; ++i) t.push_back(hd[(i * 7 + n) % 22]);
            op_dec(true, t);
            for (int i = 0; i < n; ++i) for (int bad : std::vector<int>{'g', 'G', ' ', '/', ':', '@', '`', 0x00, 0xFF, 'x'}) { Bytes u = t; u[i] = (char)bad; op_dec(true, u); }
        }
        static const char bd[] = "ABCDEFGHIJKLMNOPQRSTUVWXYZabcdefghijklmnopqrstuvwxyz0123456789+/";
        for (int n = 4; n <= 96; n += 4) for (int pad = 0; pad <= 2; ++pad) {
            Bytes t; for (int i = 0; i < n; ++i) t.push_back(bd[(i * 11 + n + pad) % 64]);
            // canonical tail bits are not required by the decoder contract, but keep the text an encoder output
            if (pad == 1) { t[n - 1] = '='; t[n - 2] = bd[((unsigned char)t[n - 2] % 16) * 4]; }
            if (pad == 2) { t[n - 1] = '='; t[n - 2] = '='; t[n - 3] = bd[((unsigned char)t[n - 3] % 4) * 16]; }
            op_dec(false, t);
            if (pad == 0 || n <= 12 || n >= 84) for (int i = 0; i < n; ++i) for (int bad : std::vector<int>{'-', '_', ' ', '.', 0x00, 0xFF}) { Bytes u = t; u[i] = (char)bad; op_dec(false, u); }
        }
    } else if (gen == "decrand") {
        static const char b64a[] = "ABCZabcz0189+/=";
        static const char hexa[] = "0123456789abcdefABCDEFgG x";
        for (long long k = 0; k < count; ++k) {
            bool hex = rng.below(2);
            Bytes t; int n = (int)rng.below(21);
            if (!hex && rng.below(3)) n = 4 * (int)rng.below(6);
            if (hex && rng.below(3)) n = 2 * (int)rng.below(10);
            for (int i = 0; i < n; ++i) t.push_back(rng.below(12) ? (hex ? hexa[rng.below(sizeof hexa - 1)] : b64a[rng.below(sizeof b64a - 1)]) : (char)rng.below(256));
            if (!hex && n >= 4 && rng.below(3) == 0) { t[n - 1] = '='; if (rng.below(2)) t[n - 2] = '='; }
            op_dec(hex, t);
        }
    } else { fprintf(stderr, "unknown generator\n"); return 2; }
    o.flush();
    return 0;
}
