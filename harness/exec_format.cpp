// Executor for formatting and numeric text (C10-C13, C17).
// Records outcomes of ST::format and every other sink for generated format
// strings and argument lists; integer/float <-> text calls; no expectations.
#include "common/verif.h"
#include "common/alloc_shim.inc"

#include <string_theory/string>
#include <string_theory/format>
#include <string_theory/stdio>
#include <string_theory/iostream>
#include <string_theory/string_stream>
#include <sstream>
#include <filesystem>
#include <functional>
#include <climits>
#include <cfloat>
#include <cmath>
#include <cerrno>

using namespace vf;
using ST::string;
typedef std::string Bytes;

static void assert_hook(const char *file, int line, const char *msg) { throw assert_failure{file, line, msg}; }

// ------------------------------------------------------------- arguments ---
struct AnyArg {
    enum T { I8, U8, I16, U16, I32, U32, I64, U64, CHAR, WCHAR, C16, C32, C8, BOOL, NULLSTR,
             S_CSTR, S_ST, S_STD, S_VIEW, S_C8Z, S_U8STD, S_U16Z, S_U32Z, S_WZ, S_U16STD, S_WSTD, S_NESTED, S_PATH } t = I32;
    long long sv = 0; unsigned long long uv = 0; Bytes b;
    std::u16string b16; std::u32string b32; std::wstring bw;
};
static const char *type_name(const AnyArg &a) {
    static const char *n[] = {"i8", "u8", "i16", "u16", "i32", "u32", "i64", "u64", "char", "wchar", "c16", "c32", "c8", "bool", "nullstr",
                              "str", "str", "str", "str", "str", "str", "str", "str", "str", "str", "str", "str", "str"};
    return n[a.t];
}
static const char *form_name(const AnyArg &a) {
    static const char *n[] = {"", "", "", "", "", "", "", "", "", "", "", "", "", "", "",
                              "cstr", "ST::string", "std::string", "string_view", "c8z", "u8string", "u16z", "u32z", "wz", "u16string", "wstring", "nested", "fspath"};
    return n[a.t];
}
// found by argument-dependent lookup from ST::make_formatter_ref: dispatches to the library's own formatter of the static type
void format_type(const ST::format_spec &f, ST::format_writer &o, const AnyArg &a) {
    switch (a.t) {
    case AnyArg::I8: ST::format_type(f, o, (signed char)a.sv); break;
    case AnyArg::U8: ST::format_type(f, o, (unsigned char)a.uv); break;
    case AnyArg::I16: ST::format_type(f, o, (short)a.sv); break;
    case AnyArg::U16: ST::format_type(f, o, (unsigned short)a.uv); break;
    case AnyArg::I32: ST::format_type(f, o, (int)a.sv); break;
    case AnyArg::U32: ST::format_type(f, o, (unsigned int)a.uv); break;
    case AnyArg::I64: if (a.uv & 1) ST::format_type(f, o, (long long)a.sv); else ST::format_type(f, o, (long)a.sv); break;
    case AnyArg::U64: if (a.sv & 1) ST::format_type(f, o, (unsigned long long)a.uv); else ST::format_type(f, o, (unsigned long)a.uv); break;
    case AnyArg::CHAR: ST::format_type(f, o, (char)a.sv); break;
    case AnyArg::WCHAR: ST::format_type(f, o, (wchar_t)a.sv); break;
    case AnyArg::C16: ST::format_type(f, o, (char16_t)a.uv); break;
    case AnyArg::C32: ST::format_type(f, o, (char32_t)a.uv); break;
    case AnyArg::C8: ST::format_type(f, o, (char8_t)a.uv); break;
    case AnyArg::BOOL: ST::format_type(f, o, a.uv != 0); break;
    case AnyArg::NULLSTR: ST::format_type(f, o, (const char *)nullptr); break;
    case AnyArg::S_CSTR: ST::format_type(f, o, a.b.c_str()); break;
    case AnyArg::S_ST: ST::format_type(f, o, string::from_validated(a.b.data(), a.b.size())); break;
    case AnyArg::S_STD: ST::format_type(f, o, a.b); break;
    case AnyArg::S_VIEW: ST::format_type(f, o, std::string_view(a.b)); break;
    case AnyArg::S_C8Z: ST::format_type(f, o, (const char8_t *)a.b.c_str()); break;
    case AnyArg::S_U8STD: ST::format_type(f, o, std::u8string((const char8_t *)a.b.data(), a.b.size())); break;
    case AnyArg::S_U16Z: ST::format_type(f, o, a.b16.c_str()); break;
    case AnyArg::S_U32Z: ST::format_type(f, o, a.b32.c_str()); break;
    case AnyArg::S_WZ: ST::format_type(f, o, a.bw.c_str()); break;
    case AnyArg::S_U16STD: ST::format_type(f, o, a.b16); break;
    case AnyArg::S_WSTD: ST::format_type(f, o, a.bw); break;
    case AnyArg::S_PATH: ST::format_type(f, o, std::filesystem::path(a.b)); break;
    // a user-defined formatter that itself formats (re-entrant use of the library while an outer call is running)
    case AnyArg::S_NESTED: { string inner = ST::format(ST::assume_valid, "{}{}", std::string_view(a.b).substr(0, a.b.size() / 2), std::string_view(a.b).substr(a.b.size() / 2));
                             string twice = ST::format_latin_1("{}", 7); (void)twice;
                             ST::format_type(f, o, inner); break; }
    }
}

static std::string jnum(unsigned long long mag, bool neg = false) {
    Out o; o.s("{").k("s").i(neg ? -1 : 1).c(',').k("m"); put_limbs(o, mag); o.c('}'); return o.b;
}
static std::string jsnum(long long v) { return v < 0 ? jnum(0ull - (unsigned long long)v, true) : jnum((unsigned long long)v); }
static std::string jbytes(const Bytes &b) { Out o; put_units(o, b.data(), b.size()); return o.b; }

static AnyArg mk_int(AnyArg::T t, long long sv, unsigned long long uv, int variant = 0) {
    AnyArg a; a.t = t; a.sv = sv; a.uv = uv;
    if (t == AnyArg::I64) a.uv = variant; if (t == AnyArg::U64) a.sv = variant;
    return a;
}
static bool is_signed_t(AnyArg::T t) { return t == AnyArg::I8 || t == AnyArg::I16 || t == AnyArg::I32 || t == AnyArg::I64 || t == AnyArg::CHAR || t == AnyArg::WCHAR; }
static void enc8(Bytes &o, uint32_t c) {
    if (c < 0x80) o += (char)c;
    else if (c < 0x800) { o += (char)(0xC0 | (c >> 6)); o += (char)(0x80 | (c & 0x3F)); }
    else if (c < 0x10000) { o += (char)(0xE0 | (c >> 12)); o += (char)(0x80 | ((c >> 6) & 0x3F)); o += (char)(0x80 | (c & 0x3F)); }
    else { o += (char)(0xF0 | (c >> 18)); o += (char)(0x80 | ((c >> 12) & 0x3F)); o += (char)(0x80 | ((c >> 6) & 0x3F)); o += (char)(0x80 | (c & 0x3F)); }
}
// string argument from scalar values (so that every form carries the same text)
static AnyArg mk_str(AnyArg::T form, const std::vector<uint32_t> &sc) {
    AnyArg a; a.t = form;
    for (uint32_t c : sc) {
        enc8(a.b, c); a.b32 += (char32_t)c; a.bw += (wchar_t)c;
        if (c < 0x10000) a.b16 += (char16_t)c; else { uint32_t d = c - 0x10000; a.b16 += (char16_t)(0xD800 + (d >> 10)); a.b16 += (char16_t)(0xDC00 + (d & 0x3FF)); }
    }
    return a;
}
static AnyArg mk_bytes(AnyArg::T form, const Bytes &b) { AnyArg a; a.t = form; a.b = b; return a; }

static void put_arg(Out &o, const AnyArg &a) {
    o.s("{").k("t").q(type_name(a));
    switch (a.t) {
    case AnyArg::BOOL: o.c(',').k("v").i(a.uv ? 1 : 0); break;
    case AnyArg::NULLSTR: break;
    case AnyArg::I64: o.c(',').k("v").s(jsnum(a.sv)); break;
    case AnyArg::U64: o.c(',').k("v").s(jnum(a.uv)); break;
    default:
        if (a.t >= AnyArg::S_CSTR) { o.c(',').k("b").s(jbytes(a.b)).c(',').k("form").q(form_name(a)); }
        else if (is_signed_t(a.t)) {
            long long v = a.t == AnyArg::I8 ? (signed char)a.sv : a.t == AnyArg::I16 ? (short)a.sv : a.t == AnyArg::I32 ? (int)a.sv
                        : a.t == AnyArg::CHAR ? (char)a.sv : a.t == AnyArg::WCHAR ? (long long)(wchar_t)a.sv : a.sv;
            o.c(',').k("v").s(jsnum(v));
        } else {
            unsigned long long v = a.t == AnyArg::U8 ? (unsigned char)a.uv : a.t == AnyArg::U16 ? (unsigned short)a.uv : a.t == AnyArg::U32 ? (unsigned int)a.uv
                                 : a.t == AnyArg::C16 ? (char16_t)a.uv : a.t == AnyArg::C32 ? (char32_t)a.uv : a.t == AnyArg::C8 ? (char8_t)a.uv : a.uv;
            o.c(',').k("v").s(jnum(v));
        }
    }
    o.c('}');
}

// ------------------------------------------------------------------ sinks ---
struct SinkRes { std::string res = "ok", what, units; };
template <class F> static SinkRes guard(F f) {
    SinkRes r;
    try { r.units = f(); }
    catch (const ST::bad_format &e) { r.res = "bad_format"; r.what = e.what(); }
    catch (const ST::unicode_error &e) { r.res = "unicode_error"; r.what = e.what(); }
    catch (const std::out_of_range &e) { r.res = "out_of_range"; r.what = e.what(); }
    catch (const std::invalid_argument &e) { r.res = "invalid_argument"; r.what = e.what(); }
    catch (const std::bad_alloc &) { r.res = "bad_alloc"; }
    catch (const assert_failure &a) { r.res = "assert"; r.what = a.message; }
    catch (const std::exception &e) { r.res = demangle(typeid(e).name()); r.what = e.what(); }
    return r;
}
template <class T> static std::string junits(const T *p, size_t n) { Out o; put_units(o, p, n); return o.b; }
static std::string jstr(const string &s) { return junits(s.c_str(), s.size()); }

// call `call(args...)` with the first n of the given arguments
template <class C> static auto with_args(const std::vector<AnyArg> &a, C call) {
    switch (a.size()) {
    case 0: return call();
    case 1: return call(a[0]);
    case 2: return call(a[0], a[1]);
    default: return call(a[0], a[1], a[2]);
    }
}

struct Shard { long long idx = 0, shard = 0, nshards = 1, from = 0;
    bool take() { long long i = idx++; return i % nshards == shard && i >= from; } };
static Shard SH;
static long long g_events = 0;
static bool g_sinks = true;

static void op_fmt(const Bytes &fmt, const std::vector<AnyArg> &args, bool nullfmt = false) {
    if (!SH.take()) return;
    Out h; h.s("{").k("e").q("fmt").c(',').k("i").i(SH.idx - 1).c(',').k("f").s(jbytes(fmt)).c(',').k("null").i(nullfmt).c(',').k("args").c('[');
    for (size_t k = 0; k < args.size(); ++k) { if (k) h.c(','); put_arg(h, args[k]); }
    h.c(']');
    set_cur(SH.idx - 1, h.b + "}");
    Exact<char> ef((fmt + '\0').data(), fmt.size() + 1);     // exactly the terminated string: reads beyond hit a redzone
    const char *fp = nullfmt ? nullptr : ef.p;
    std::vector<std::pair<std::string, SinkRes>> S;
    S.emplace_back("format", guard([&] { return jstr(with_args(args, [&](auto &&...a) { return ST::format(fp, a...); })); }));
    if (g_sinks) {
        S.emplace_back("format_check", guard([&] { return jstr(with_args(args, [&](auto &&...a) { return ST::format(ST::check_validity, fp, a...); })); }));
        S.emplace_back("format_substitute", guard([&] { return jstr(with_args(args, [&](auto &&...a) { return ST::format(ST::substitute_invalid, fp, a...); })); }));
        S.emplace_back("format_assume", guard([&] { return jstr(with_args(args, [&](auto &&...a) { return ST::format(ST::assume_valid, fp, a...); })); }));
        S.emplace_back("format_latin_1", guard([&] { return jstr(with_args(args, [&](auto &&...a) { return ST::format_latin_1(fp, a...); })); }));
        if (!nullfmt) S.emplace_back("_stfmt", guard([&] { return jstr(with_args(args, [&](auto &&...a) { return ST::literals::operator""_stfmt(fp, fmt.size())(a...); })); }));
        // the formatter object of the literal, kept and invoked a second time: each call renders its own arguments
        if (!nullfmt) S.emplace_back("_stfmt_twice", guard([&] {
            auto fo = ST::literals::operator""_stfmt(fp, fmt.size());
            std::vector<AnyArg> other(args.size(), mk_int(AnyArg::I32, 12345, 12345));      // the first call gets OTHER arguments
            with_args(other, [&](auto &&...b) { try { (void)fo(b...); } catch (...) { } return 0; });
            return jstr(with_args(args, [&](auto &&...a) { return fo(a...); })); }));
        S.emplace_back("printf_FILE", guard([&] {
            char *mem = nullptr; size_t msz = 0; FILE *fs = open_memstream(&mem, &msz);
            std::string r;
            try { with_args(args, [&](auto &&...a) { ST::printf(fs, fp, a...); return 0; }); }
            catch (...) { fclose(fs); free(mem); throw; }
            fclose(fs); r = junits(mem, msz); free(mem); return r; }));
        S.emplace_back("writef_ostream", guard([&] { std::ostringstream os; with_args(args, [&](auto &&...a) { ST::writef(os, fp, a...); return 0; }); std::string s = os.str(); return junits(s.data(), s.size()); }));
        S.emplace_back("writef_wostream", guard([&] { std::wostringstream os; with_args(args, [&](auto &&...a) { ST::writef(os, fp, a...); return 0; }); std::wstring s = os.str(); return junits(s.data(), s.size()); }));
        // a stream with a pending field width and fill: writef writes unformatted, so nothing may change
        S.emplace_back("writef_ostream_w", guard([&] { std::ostringstream os; os.width(9); os.fill('*'); with_args(args, [&](auto &&...a) { ST::writef(os, fp, a...); return 0; }); std::string s = os.str(); return junits(s.data(), s.size()); }));
        S.emplace_back("writef_wostream_w", guard([&] { std::wostringstream os; os.width(9); os.fill(L'*'); with_args(args, [&](auto &&...a) { ST::writef(os, fp, a...); return 0; }); std::wstring s = os.str(); return junits(s.data(), s.size()); }));
        S.emplace_back("writef_u16ostream", guard([&] { std::basic_ostringstream<char16_t> os; with_args(args, [&](auto &&...a) { ST::writef(os, fp, a...); return 0; }); auto s = os.str(); return junits(s.data(), s.size()); }));
        S.emplace_back("writef_u32ostream", guard([&] { std::basic_ostringstream<char32_t> os; with_args(args, [&](auto &&...a) { ST::writef(os, fp, a...); return 0; }); auto s = os.str(); return junits(s.data(), s.size()); }));
    }
    Out &o = out();
    o.s(h.b).c(',').k("sinks").c('[');
    for (size_t k = 0; k < S.size(); ++k) {
        if (k) o.c(',');
        o.s("{").k("k").q(S[k].first).c(',').k("res").q(S[k].second.res).c(',').k("out").s(S[k].second.res == "ok" ? S[k].second.units : "[]");
        if (S[k].second.res != "ok") o.c(',').k("what").q(S[k].second.what);
        o.c('}');
    }
    o.s("]}\n"); o.maybe_flush(); ++g_events;
}

// stream insertion / extraction of ST::string (C17, second half)
template <class CT> static std::string ins(const string &s) { std::basic_ostringstream<CT> os; os << s; auto r = os.str(); return junits(r.data(), r.size()); }
static void op_stream_io(const std::vector<uint32_t> &sc) {
    if (!SH.take()) return;
    AnyArg a = mk_str(AnyArg::S_ST, sc);
    Out h; h.s("{").k("e").q("streamio").c(',').k("i").i(SH.idx - 1).c(',').k("s").s(jbytes(a.b));
    set_cur(SH.idx - 1, h.b + "}");
    string s = string::from_validated(a.b.data(), a.b.size());
    std::vector<std::pair<std::string, SinkRes>> S;
    S.emplace_back("ins_char", guard([&] { return ins<char>(s); }));
    S.emplace_back("ins_wchar", guard([&] { return ins<wchar_t>(s); }));
    S.emplace_back("ins_char16", guard([&] { return ins<char16_t>(s); }));
    S.emplace_back("ins_char32", guard([&] { return ins<char32_t>(s); }));
    // extraction: the token an std::basic_string extraction stores, and what ST::string stores
    S.emplace_back("ext_char_std", guard([&] { std::istringstream is(a.b); std::string t; is >> t; return junits(t.data(), t.size()); }));
    S.emplace_back("ext_char", guard([&] { std::istringstream is(a.b); string t; is >> t; return jstr(t); }));
    // the target already holds a token from an earlier read: like std::basic_string, it must end up holding exactly
    // what this extraction stored (the empty string when there is no token)
    S.emplace_back("ext_char_reuse_std", guard([&] { std::istringstream is(a.b); std::string t = "old"; is >> t; return junits(t.data(), t.size()); }));
    S.emplace_back("ext_char_reuse", guard([&] { std::istringstream is(a.b); string t = ST_LITERAL("old"); is >> t; return jstr(t); }));
    S.emplace_back("ext_char_nows_std", guard([&] { std::istringstream is(a.b); std::string t = "old"; is >> std::noskipws >> t; return junits(t.data(), t.size()); }));
    S.emplace_back("ext_char_nows", guard([&] { std::istringstream is(a.b); string t = ST_LITERAL("old"); is >> std::noskipws >> t; return jstr(t); }));
    S.emplace_back("ext_wchar_std", guard([&] { std::wistringstream is(a.bw); std::wstring t; is >> t; return junits(t.data(), t.size()); }));
    S.emplace_back("ext_wchar", guard([&] { std::wistringstream is(a.bw); string t; is >> t; return jstr(t); }));
    Out &o = out();
    o.s(h.b).c(',').k("sinks").c('[');
    for (size_t k = 0; k < S.size(); ++k) {
        if (k) o.c(',');
        o.s("{").k("k").q(S[k].first).c(',').k("res").q(S[k].second.res).c(',').k("out").s(S[k].second.res == "ok" ? S[k].second.units : "[]").c('}');
    }
    o.s("]}\n"); o.maybe_flush(); ++g_events;
}

// ----------------------------------------------------- C12: integer text ---
static const char *itype_name[] = {"i16", "i32", "i64l", "i64", "u16", "u32", "u64l", "u64"};
// kind: 0 short 1 int 2 long 3 long long 4 ushort 5 uint 6 ulong 7 ulonglong
static void op_int(int kind, long long sv, unsigned long long uv, int base, bool upper) {
    if (!SH.take()) return;
    bool sgn = kind < 4;
    // the value as the argument type holds it
    switch (kind) { case 0: sv = (short)sv; break; case 1: sv = (int)sv; break; case 4: uv = (unsigned short)uv; break; case 5: uv = (unsigned int)uv; break; default: break; }
    Out h; h.s("{").k("e").q("int").c(',').k("i").i(SH.idx - 1).c(',').k("t").q(itype_name[kind]).c(',').k("v").s(sgn ? jsnum(sv) : jnum(uv))
        .c(',').k("base").i(base).c(',').k("upper").i(upper);
    set_cur(SH.idx - 1, h.b + "}");
    std::vector<std::pair<std::string, SinkRes>> S;
    string text;
    S.emplace_back("from", guard([&] {
        switch (kind) {
        case 0: text = string::from_int((short)sv, base, upper); break;
        case 1: text = string::from_int((int)sv, base, upper); break;
        case 2: text = string::from_int((long)sv, base, upper); break;
        case 3: text = string::from_int((long long)sv, base, upper); break;
        case 4: text = string::from_uint((unsigned short)uv, base, upper); break;
        case 5: text = string::from_uint((unsigned int)uv, base, upper); break;
        case 6: text = string::from_uint((unsigned long)uv, base, upper); break;
        default: text = string::from_uint((unsigned long long)uv, base, upper); break;
        }
        return jstr(text); }));
    if (kind == 3) S.emplace_back("from", guard([&] { return jstr(string::from_int64((int64_t)sv, base, upper)); }));
    if (kind == 7) S.emplace_back("from", guard([&] { return jstr(string::from_uint64((uint64_t)uv, base, upper)); }));
    // the same digits through ST::format and string_stream where they support the base
    const char *spec = base == 10 ? "{}" : base == 16 ? (upper ? "{X}" : "{x}") : base == 8 ? "{o}" : base == 2 ? "{b}" : nullptr;
    if (spec && (base == 10 || !upper || base == 16)) {
        S.emplace_back("format", guard([&] {
            switch (kind) {
            case 0: return jstr(ST::format(spec, (short)sv)); case 1: return jstr(ST::format(spec, (int)sv));
            case 2: return jstr(ST::format(spec, (long)sv)); case 3: return jstr(ST::format(spec, (long long)sv));
            case 4: return jstr(ST::format(spec, (unsigned short)uv)); case 5: return jstr(ST::format(spec, (unsigned int)uv));
            case 6: return jstr(ST::format(spec, (unsigned long)uv)); default: return jstr(ST::format(spec, (unsigned long long)uv));
            } }));
        if (base == 10) {
            S.emplace_back("format", guard([&] { const char *d = "{d}";
                switch (kind) {
                case 0: return jstr(ST::format(d, (short)sv)); case 1: return jstr(ST::format(d, (int)sv));
                case 2: return jstr(ST::format(d, (long)sv)); case 3: return jstr(ST::format(d, (long long)sv));
                case 4: return jstr(ST::format(d, (unsigned short)uv)); case 5: return jstr(ST::format(d, (unsigned int)uv));
                case 6: return jstr(ST::format(d, (unsigned long)uv)); default: return jstr(ST::format(d, (unsigned long long)uv));
                } }));
            S.emplace_back("stream", guard([&] { ST::string_stream ss;
                switch (kind) {
                case 0: ss << (short)sv; break; case 1: ss << (int)sv; break; case 2: ss << (long)sv; break; case 3: ss << (long long)sv; break;
                case 4: ss << (unsigned short)uv; break; case 5: ss << (unsigned int)uv; break; case 6: ss << (unsigned long)uv; break; default: ss << (unsigned long long)uv; break;
                }
                return junits(ss.raw_buffer(), ss.size()); }));
        }
    }
    // parse the produced text back with the to_* member of the same width and base
    std::string back = "null";
    {
        ST::conversion_result cr; Out b;
        long long rs = 0; unsigned long long ru = 0;
        try {
            switch (kind) {
            case 0: rs = text.to_short(cr, base); break; case 1: rs = text.to_int(cr, base); break;
            case 2: rs = text.to_long(cr, base); break; case 3: rs = text.to_long_long(cr, base); break;
            case 4: ru = text.to_ushort(cr, base); break; case 5: ru = text.to_uint(cr, base); break;
            case 6: ru = text.to_ulong(cr, base); break; default: ru = text.to_ulong_long(cr, base); break;
            }
            b.s("{").k("v").s(sgn ? jsnum(rs) : jnum(ru)).c(',').k("ok").i(cr.ok()).c(',').k("full").i(cr.full_match()).c('}');
            back = b.b;
        } catch (...) { back = "{\"v\":{\"s\":1,\"m\":[0,0,0,0]},\"ok\":-1,\"full\":-1}"; }
    }
    Out &o = out();
    o.s(h.b).c(',').k("back").s(back).c(',').k("sinks").c('[');
    for (size_t k = 0; k < S.size(); ++k) {
        if (k) o.c(',');
        o.s("{").k("k").q(S[k].first).c(',').k("res").q(S[k].second.res).c(',').k("out").s(S[k].second.res == "ok" ? S[k].second.units : "[]").c('}');
    }
    o.s("]}\n"); o.maybe_flush(); ++g_events;
}

// arbitrary text -> integer: the to_* members vs the C library on the same bytes (the C library is the reference by definition)
static void op_parse(const Bytes &text, int base) {
    if (!SH.take()) return;
    Out h; h.s("{").k("e").q("parse").c(',').k("i").i(SH.idx - 1).c(',').k("text").s(jbytes(text)).c(',').k("base").i(base);
    set_cur(SH.idx - 1, h.b + "}");
    string s = string::from_validated(text.data(), text.size());
    Bytes z = text + '\0';   // what a C string reader sees
    Out &o = out();
    o.s(h.b).c(',').k("size").i((long long)text.size()).c(',').k("r").c('[');
    auto one = [&](const char *name, bool sgn, long long lv, unsigned long long lu, long consumed, long long gv, unsigned long long gu, const ST::conversion_result &cr, long long plain_s, unsigned long long plain_u, bool first) {
        if (!first) o.c(',');
        o.s("{").k("t").q(name).c(',').k("libc").s(sgn ? jsnum(lv) : jnum(lu)).c(',').k("consumed").i(consumed)
         .c(',').k("v").s(sgn ? jsnum(gv) : jnum(gu)).c(',').k("ok").i(cr.ok()).c(',').k("full").i(cr.full_match())
         .c(',').k("plain").s(sgn ? jsnum(plain_s) : jnum(plain_u)).c('}');
    };
    char *e; ST::conversion_result cr;
    // the result object is REUSED: before every call it holds the flags of an unrelated earlier conversion
    // (alternately "ok + full match" and "neither"), which the call must overwrite completely
    int primes = (int)(SH.idx & 1);        // which of the two stale states comes first alternates from event to event
    auto prime = [&] { if (primes++ & 1) (void)string("x").to_int(cr); else (void)string("7").to_int(cr); };
#define PRIMED(expr) (prime(), (expr))
    errno = 0; long l = strtol(z.c_str(), &e, base); long cl = e - z.c_str();
    { long v = PRIMED(s.to_long(cr, base)); one("i64l", true, l, 0, cl, v, 0, cr, s.to_long(base), 0, true); }
    { int v = PRIMED(s.to_int(cr, base)); one("i32", true, l, 0, cl, v, 0, cr, s.to_int(base), 0, false); }
    { short v = PRIMED(s.to_short(cr, base)); one("i16", true, l, 0, cl, v, 0, cr, s.to_short(base), 0, false); }
    long long ll = strtoll(z.c_str(), &e, base); long cll = e - z.c_str();
    { long long v = PRIMED(s.to_long_long(cr, base)); one("i64", true, ll, 0, cll, v, 0, cr, s.to_long_long(base), 0, false); }
    unsigned long ul = strtoul(z.c_str(), &e, base); long cul = e - z.c_str();
    { unsigned long v = PRIMED(s.to_ulong(cr, base)); one("u64l", false, 0, ul, cul, 0, v, cr, 0, s.to_ulong(base), false); }
    { unsigned int v = PRIMED(s.to_uint(cr, base)); one("u32", false, 0, ul, cul, 0, v, cr, 0, s.to_uint(base), false); }
    { unsigned short v = PRIMED(s.to_ushort(cr, base)); one("u16", false, 0, ul, cul, 0, v, cr, 0, s.to_ushort(base), false); }
    unsigned long long ull = strtoull(z.c_str(), &e, base); long cull = e - z.c_str();
    { unsigned long long v = PRIMED(s.to_ulong_long(cr, base)); one("u64", false, 0, ull, cull, 0, v, cr, 0, s.to_ulong_long(base), false); }
    o.s("]}\n"); o.maybe_flush(); ++g_events;
}

// -------------------------------------------------------- C13: float text ---
static std::string jbits(double d) { unsigned long long b; memcpy(&b, &d, 8); Out o; put_limbs(o, b); return o.b; }
// components of a float field; the executor states the printf conversion it used for the reference
// rendering (the spec re-derives it from the components and rejects a mismatch)
static void op_float(double v, bool isfloat, char notation /* g f e E */, int prec, bool plus, int width, int align /*0 d 1 < 2 >*/, int pad /*0 none, else char*/, bool zeroflag) {
    if (!SH.take()) return;
    std::string fmt = "{";
    if (align == 1) fmt += '<'; else if (align == 2) fmt += '>';
    if (zeroflag) fmt += '0';
    if (pad) { fmt += '_'; fmt += (char)pad; }
    if (width > 0) fmt += std::to_string(width);
    if (prec >= 0) { fmt += '.'; fmt += std::to_string(prec); }
    else if (prec < -1) { fmt += '.'; fmt += std::to_string(prec); }      // an explicit negative precision means "none"
    if (plus) fmt += '+';
    if (notation != 'g') fmt += notation;
    fmt += '}';
    std::string pf = "%"; if (plus) pf += '+'; if (prec >= 0) { pf += '.'; pf += std::to_string(prec); } pf += notation;
    double arg = isfloat ? (double)(float)v : v;
    int need = snprintf(nullptr, 0, pf.c_str(), arg);
    std::string libc((size_t)need, '\0');
    { Untracked u; libc.resize(need + 1); snprintf(libc.data(), need + 1, pf.c_str(), arg); libc.resize(need); }
    Out h; h.s("{").k("e").q("float").c(',').k("i").i(SH.idx - 1).c(',').k("isfloat").i(isfloat).c(',').k("bits").s(jbits(arg))
        .c(',').k("notation").q(std::string(1, notation)).c(',').k("prec").i(prec).c(',').k("plus").i(plus).c(',').k("width").i(width)
        .c(',').k("align").i(align).c(',').k("pad").i(pad).c(',').k("zero").i(zeroflag)
        .c(',').k("f").s(jbytes(fmt)).c(',').k("printf").s(jbytes(pf)).c(',').k("libc").s(jbytes(libc));
    set_cur(SH.idx - 1, h.b + "}");
    Exact<char> ef((fmt + '\0').data(), fmt.size() + 1);
    std::vector<std::pair<std::string, SinkRes>> S;
    S.emplace_back("format", guard([&] { return isfloat ? jstr(ST::format(ef.p, (float)v)) : jstr(ST::format(ef.p, v)); }));
    // plain conversions: only meaningful for a bare notation (no width / precision / flags)
    if (prec == -1 && !plus && width == 0 && pad == 0 && !zeroflag && align == 0) {
        S.emplace_back("from", guard([&] { return isfloat ? jstr(string::from_float((float)v, notation)) : jstr(string::from_double(v, notation)); }));
        if (!isfloat) S.emplace_back("from", guard([&] { return jstr(string::from_float(v, notation)); }));
        if (notation == 'g') S.emplace_back("stream", guard([&] { ST::string_stream ss; if (isfloat) ss << (float)v; else ss << v; return junits(ss.raw_buffer(), ss.size()); }));
    }
    Out &o = out();
    o.s(h.b).c(',').k("sinks").c('[');
    for (size_t k = 0; k < S.size(); ++k) {
        if (k) o.c(',');
        o.s("{").k("k").q(S[k].first).c(',').k("res").q(S[k].second.res).c(',').k("out").s(S[k].second.res == "ok" ? S[k].second.units : "[]").c(',').k("what").q(S[k].second.what).c('}');
    }
    o.s("]}\n"); o.maybe_flush(); ++g_events;
}
// text -> float/double: to_float/to_double vs strtof/strtod on the same bytes
static void op_parsef(const Bytes &text) {
    if (!SH.take()) return;
    Out h; h.s("{").k("e").q("parsef").c(',').k("i").i(SH.idx - 1).c(',').k("text").s(jbytes(text));
    set_cur(SH.idx - 1, h.b + "}");
    string s = string::from_validated(text.data(), text.size());
    Bytes z = text + '\0'; char *e; ST::conversion_result cr;
    Out &o = out();
    o.s(h.b).c(',').k("size").i((long long)text.size());
    double d = strtod(z.c_str(), &e); long cd = e - z.c_str();
    (void)string("7").to_int(cr);          // stale "ok + full match" flags from an earlier conversion
    double gd = s.to_double(cr);
    o.c(',').k("d").s("{").k("libc").s(jbits(d)).c(',').k("consumed").i(cd).c(',').k("v").s(jbits(gd)).c(',').k("ok").i(cr.ok()).c(',').k("full").i(cr.full_match()).c(',').k("plain").s(jbits(s.to_double())).c('}');
    float f = strtof(z.c_str(), &e); long cf = e - z.c_str();
    if (text.size() & 1) (void)string("x").to_int(cr); else (void)string("7").to_int(cr);
    float gf = s.to_float(cr);
    o.c(',').k("f").s("{").k("libc").s(jbits(f)).c(',').k("consumed").i(cf).c(',').k("v").s(jbits(gf)).c(',').k("ok").i(cr.ok()).c(',').k("full").i(cr.full_match()).c(',').k("plain").s(jbits(s.to_float())).c('}');
    o.s("}\n"); o.maybe_flush(); ++g_events;
}

// a formatter OBJECT that is kept and reused (C18): a call refused with bad_format leaves the text it held
template <class FT> static void op_ffreuse(const char *tname, double v1, char n1, double v2, char bad) {
    if (!SH.take()) return;
    Out h; h.s("{").k("e").q("ffreuse").c(',').k("i").i(SH.idx - 1).c(',').k("t").q(tname).c(',').k("bad").i((unsigned char)bad);
    set_cur(SH.idx - 1, h.b + "}");
    ST::float_formatter<FT> ff;
    std::string before, after, exc = "none"; long long nb = -1, na = -1;
    try { ff.format((FT)v1, n1); before.assign(ff.text(), ff.size()); nb = (long long)ff.size(); } catch (...) { exc = "first call failed"; }
    try { ff.format((FT)v2, bad); exc = "none"; }
    catch (const ST::bad_format &) { exc = "bad_format"; } catch (const assert_failure &) { exc = "assert"; } catch (const std::exception &e) { exc = demangle(typeid(e).name()); }
    after.assign(ff.text(), ff.size() < 400 ? ff.size() : 400); na = (long long)ff.size();
    long long zlen = (long long)strnlen(ff.text(), 400);
    Out &o = out();
    o.s(h.b).c(',').k("exc").q(exc).c(',').k("before").s(jbytes(before)).c(',').k("after").s(jbytes(after)).c(',').k("n").i(nb).c(',').k("n2").i(na).c(',').k("z").i(zlen).s("}\n");
    o.maybe_flush(); ++g_events;
}
static void gen_ffreuse() {
    for (double v1 : {0.0, 1.5, -2.25e-7, 1e100, 123456.789}) for (char n1 : {'g', 'f', 'e', 'E'}) for (double v2 : {2.5, 1e300}) for (char bad : std::vector<char>{'q', 'd', 'x', '\0', ' ', 'a', 'H'}) {
        op_ffreuse<double>("double", v1, n1, v2, bad); op_ffreuse<float>("float", v1, n1, v2, bad);
    }
}

// ------------------------------------------------------------- generators ---
static std::vector<long long> parse_list(const char *s) {
    std::vector<long long> v; if (!s) return v;
    while (*s) { char *e; long long x = strtoll(s, &e, 0); if (e == s) break; v.push_back(x); s = e; if (*s == ',') ++s; }
    return v;
}
static std::vector<std::vector<AnyArg>> arg_lists() {
    std::vector<std::vector<AnyArg>> L;
    L.push_back({});
    L.push_back({mk_int(AnyArg::I32, 42, 42)});
    L.push_back({mk_str(AnyArg::S_CSTR, {'a', 'b'})});
    L.push_back({mk_int(AnyArg::I32, -7, 0), mk_str(AnyArg::S_ST, {0xE9})});
    L.push_back({mk_int(AnyArg::C32, 120, 120), mk_int(AnyArg::BOOL, 1, 1), mk_int(AnyArg::U8, 0, 0)});
    return L;
}

// all token strings up to maxlen over the token classes (C10)
static void gen_tokens(const std::vector<long long> &tokens, int maxlen, bool heavy) {
    auto L = arg_lists();
    Bytes cur;
    std::function<void(int)> rec = [&](int len) {
        if ((int)cur.size() == len) {
            for (size_t k = 0; k < L.size(); ++k) { if (!heavy && k >= 3 && cur.size() >= 4) continue; op_fmt(cur, L[k]); }
            return;
        }
        for (long long t : tokens) { cur.push_back((char)t); rec(len); cur.pop_back(); }
    };
    for (int len = 0; len <= maxlen; ++len) rec(len);
    op_fmt("", {}, true);
    op_fmt("", {mk_int(AnyArg::I32, 1, 1)}, true);
}

// directed numeric fields (C10/C11): widths, precisions and argument references whose numerals exercise the
// strtol / int-narrowing paths - 2^31 and 2^32 neighbourhoods, saturation at LONG_MAX / LONG_MIN, signs, leading
// zeros and blanks - with every closing context and argument count.  Widths that narrow to a large positive int
// are left out (they would legitimately ask for gigabytes of padding).
static void gen_numfields() {
    static const char *nums[] = {"0", "1", "5", "12", "099", "2147483647", "2147483648", "4294967295", "4294967296", "4294967301", "9999999999",
        "-1", "-3", "-5", "-4294967293", "-4294967295", "-2147483648", "-2147483649", "+2", " 2", " -2", "9223372036854775807", "9223372036854775808",
        "18446744073709551615", "99999999999999999999", "-9223372036854775808", "-9223372036854775809", "00000000000000000000007", "4294967290"};
    static const char *intro[] = {"", ".", "&"};
    static const char *tails[] = {"}", "x}", "", ">}", "}z", "c}"};
    static const char *pre[] = {"", "a", "{{"};
    auto L = arg_lists();
    // long specifiers: many repeated flags, then a valid end / an unexpected byte / the terminator (error-message buffers)
    for (int k : {30, 39, 40, 41, 63, 64, 65, 78, 79, 80, 81, 100, 200}) for (const char *fl : {"<", "+", "#", "_*"}) for (const char *end : {"}", "!}", "", "\xC3}"}) {
        Bytes f = "{"; for (int i = 0; i < k; ++i) f += fl; f += end; op_fmt(f, L[1]); op_fmt("ab" + f + "c", L[3]);
    }
    // literal stretches with escaped braces: every split of 58..70 bytes around two escapes (gathering buffers)
    for (int n1 = 0; n1 <= 70; ++n1) for (int n2 : {0, 1, 62 - n1, 63 - n1, 64 - n1, 65 - n1, 127 - n1, 128 - n1}) {
        if (n2 < 0) continue;
        Bytes f = Bytes((size_t)n1, 'x') + "{{" + Bytes((size_t)n2, 'y') + "}}";
        op_fmt(f + "z{}", L[1]); op_fmt(f + "{{{{", L[0]);
    }
    // a long padding run arriving when the output buffer already holds text, at widths around its capacities
    for (const char *w : {"246", "247", "255", "256", "257", "502", "510", "511", "512", "513", "1014", "1023", "1025"})
        for (const char *pr : {"", "0123456789"}) for (size_t k = 1; k <= 2; ++k) op_fmt(Bytes(pr) + "{" + w + "}z", L[k]);
    for (const char *in : intro) for (const char *nm : nums) {
        if (!*in) { if (nm[0] < '1' || nm[0] > '9') continue; int w = (int)strtol(nm, nullptr, 10); if (w > 2000) continue; }
        for (const char *tl : tails) for (const char *pr : pre) {
            Bytes f = Bytes(pr) + "{" + in + nm + tl;
            if (!strcmp(tl, "c}") && !*in) continue;          // padding on a character conversion: documented contract assertion
            for (size_t k = 0; k < L.size(); ++k) op_fmt(f, L[k]);
        }
    }
}

static const long long SBOUND[] = {0, 1, -1, 9, 10, -10, 127, 128, -128, -129, 255, 256, 32767, -32768, 65535, 65536, 2147483647LL, -2147483648LL,
                                   4294967295LL, 4294967296LL, 4294967361LL, 1114111, 1114112, 55296, LLONG_MAX, LLONG_MIN, LLONG_MIN + 1, 1000000007LL, -999999999999LL};
static AnyArg rand_int_arg(Rng &rng) {
    static const AnyArg::T ts[] = {AnyArg::I8, AnyArg::U8, AnyArg::I16, AnyArg::U16, AnyArg::I32, AnyArg::U32, AnyArg::I64, AnyArg::U64,
                                   AnyArg::CHAR, AnyArg::WCHAR, AnyArg::C16, AnyArg::C32};
    long long v = rng.below(3) ? SBOUND[rng.below(sizeof SBOUND / sizeof *SBOUND)] : (long long)rng.next();
    if (rng.below(5) == 0) v >>= rng.below(60);
    return mk_int(ts[rng.below(12)], v, (unsigned long long)v, (int)rng.below(2));
}
static AnyArg rand_arg(Rng &rng) {
    switch (rng.below(10)) {
    case 0: case 1: case 2: case 3: return rand_int_arg(rng);
    case 4: return mk_int(AnyArg::BOOL, 0, rng.below(2));
    case 5: { static const AnyArg::T f[] = {AnyArg::S_CSTR, AnyArg::S_ST, AnyArg::S_STD, AnyArg::S_VIEW, AnyArg::S_C8Z, AnyArg::S_U8STD, AnyArg::S_U16Z, AnyArg::S_U32Z, AnyArg::S_WZ, AnyArg::S_U16STD, AnyArg::S_WSTD};
              std::vector<uint32_t> sc; int n = (int)rng.below(9); static const uint32_t pool[] = {'a', 'b', 'Z', ' ', 0xE9, 0x20AC, 0x1F600, '}', '{', 0};
              for (int i = 0; i < n; ++i) sc.push_back(pool[rng.below(10)]);
              AnyArg::T form = f[rng.below(11)];
              bool hasnul = false; for (uint32_t c : sc) hasnul |= c == 0;
              if (hasnul && (form == AnyArg::S_CSTR || form == AnyArg::S_C8Z || form == AnyArg::S_U16Z || form == AnyArg::S_U32Z || form == AnyArg::S_WZ))
                  form = (sc.size() & 1) ? AnyArg::S_ST : AnyArg::S_STD;      // an embedded NUL needs a sized form
              return mk_str(form, sc); }
    case 6: return mk_int(AnyArg::C8, 0, 'a' + rng.below(26));
    case 7: { AnyArg a; a.t = AnyArg::NULLSTR; return a; }
    default: return rand_int_arg(rng);
    }
}
// a field specifier assembled from components, in canonical or shuffled order (C11)
static Bytes rand_field(Rng &rng, int natural_hint) {
    std::vector<Bytes> parts;
    switch (rng.below(3)) { case 1: parts.push_back("<"); break; case 2: parts.push_back(">"); break; }
    switch (rng.below(5)) { case 1: parts.push_back("_*"); break; case 2: parts.push_back("0"); break; case 3: parts.push_back("_0"); break; case 4: parts.push_back(Bytes("_") + (char)(rng.below(2) ? 0xC3 : 'x')); break; }
    switch (rng.below(6)) { case 1: parts.push_back(std::to_string(std::max(1, natural_hint - 1))); break; case 2: parts.push_back(std::to_string(natural_hint + 1)); break;
                            case 3: parts.push_back(std::to_string(natural_hint + 3)); break; case 4: parts.push_back(std::to_string(1 + rng.below(70))); break; case 5: parts.push_back("1"); break; }
    switch (rng.below(6)) { case 1: parts.push_back(".0"); break; case 2: parts.push_back(".1"); break; case 3: parts.push_back("." + std::to_string(rng.below(12))); break; case 4: parts.push_back(".-3"); break; }
    if (rng.below(3) == 0) parts.push_back("#");
    if (rng.below(3) == 0) parts.push_back("+");
    static const char *cls[] = {"", "", "d", "x", "X", "o", "b", "c", "f", "e"};
    Bytes c = cls[rng.below(10)]; if (!c.empty()) parts.push_back(c);
    switch (rng.below(8)) { case 1: parts.push_back("&1"); break; case 2: parts.push_back("&2"); break; case 3: parts.push_back("&0"); break; case 4: parts.push_back("&3"); break; case 5: parts.push_back("&-1"); break; }
    if (rng.below(4) == 0) for (size_t i = parts.size(); i > 1; --i) std::swap(parts[i - 1], parts[rng.below(i)]);
    Bytes f = "{"; for (auto &p : parts) f += p; f += "}";
    return f;
}
static void gen_fields(Rng &rng, long long count) {
    static const char *lits[] = {"", "a", "{{", "}}", " x ", "\xC3\xA9", "}", "%d"};
    // chunks longer than any internal block size, with multi-byte characters across every 256-byte offset
    for (int lead = 0; lead < 4; ++lead) for (uint32_t cp : {0xE9u, 0x20ACu, 0x1F600u}) {
        std::vector<uint32_t> sc(lead, 'a'); for (int i = 0; i < 200; ++i) sc.push_back(cp);
        op_fmt("{}", {mk_str(AnyArg::S_ST, sc)}); op_fmt("[{>5}|{}]", {mk_str(AnyArg::S_CSTR, sc), mk_int(AnyArg::I32, 7, 7)});
        AnyArg lit = mk_str(AnyArg::S_ST, sc); op_fmt(lit.b + "{}" + lit.b, {mk_int(AnyArg::I32, -1, 0)});
    }
    for (long long k = 0; k < count; ++k) {
        int nargs = 1 + (int)rng.below(3), nfields = 1 + (int)rng.below(3);
        std::vector<AnyArg> args; for (int i = 0; i < nargs; ++i) args.push_back(rand_arg(rng));
        Bytes f = lits[rng.below(8)];
        for (int i = 0; i < nfields; ++i) { f += rand_field(rng, 1 + (int)rng.below(12)); f += lits[rng.below(8)]; }
        op_fmt(f, args);
    }
}
// every integer type at boundary values x every class x prefix/sign/zero-pad layouts (directed C11)
static void gen_int_layouts() {
    static const AnyArg::T ts[] = {AnyArg::I8, AnyArg::U8, AnyArg::I16, AnyArg::U16, AnyArg::I32, AnyArg::U32, AnyArg::I64, AnyArg::U64, AnyArg::CHAR, AnyArg::WCHAR, AnyArg::C16, AnyArg::C32, AnyArg::C8};
    static const char *specs[] = {"{0b}", "{0#b}", "{+0b}", "{064b}", "{066#b}", "{0o}", "{0#o}", "{070#x}", "{}", "{d}", "{x}", "{X}", "{o}", "{b}", "{#x}", "{#X}", "{#o}", "{#b}", "{+}", "{+#x}", "{08}", "{08x}", "{#08x}", "{+08}", "{<8}|", "{>8}", "{_*8}", "{_*<8}|", "{#_*12b}", "{+_ 6d}", "{c}", "{1}", "{2}", "{+#012o}"};
    for (AnyArg::T t : ts) for (long long v : SBOUND) for (int variant = 0; variant < ((t == AnyArg::I64 || t == AnyArg::U64) ? 2 : 1); ++variant)
        for (const char *s : specs) { if (t == AnyArg::C8 && !strcmp(s, "{c}") && (v < 0 || v > 127)) continue; op_fmt(s, {mk_int(t, v, (unsigned long long)v, variant)}); }
    // every width from 1 to beyond the natural size, for each radix, prefix/sign flag and padding style: the pad
    // count is (width - sign - prefix - digits) clamped at zero, also when the width lies between the number of
    // digits and the full natural size
    for (long long v : {0LL, 5LL, 0xabcLL, -0xabcLL, 255LL, -1LL}) for (const char *cl : {"", "x", "X", "o", "b"}) for (const char *fl : {"", "#", "+", "#+"})
        for (const char *pd : {"", "0", "_*", "<", "<_.", "0_*", "_*0", ">0_."}) for (int w = 1; w <= 14; ++w) {
            Bytes sp = "{"; sp += pd; sp += std::to_string(w); sp += fl; sp += cl; sp += "}|";
            op_fmt(sp, {mk_int(v < 0 ? AnyArg::I32 : AnyArg::U32, v, (unsigned long long)v)});
            if (w % 5 == 0) op_fmt(sp, {mk_int(AnyArg::I64, v, (unsigned long long)v)});
        }
    // strings and booleans: precision and width relative to the length
    static const AnyArg::T f[] = {AnyArg::S_CSTR, AnyArg::S_ST, AnyArg::S_STD, AnyArg::S_VIEW, AnyArg::S_C8Z, AnyArg::S_U8STD, AnyArg::S_U16Z, AnyArg::S_U32Z, AnyArg::S_WZ, AnyArg::S_U16STD, AnyArg::S_WSTD, AnyArg::S_PATH, AnyArg::S_NESTED};
    for (AnyArg::T form : f) for (int len = 0; len <= 5; ++len) for (int w : {0, 3, 4, 5, 6}) for (int p : {-1, 0, 1, 4, 5, 6}) for (const char *al : {"", "<", ">"}) for (const char *pd : {"", "_*", "0"}) {
        std::vector<uint32_t> sc; for (int i = 0; i < len; ++i) sc.push_back('a' + i);
        Bytes s = "["; s += "{"; s += al; s += pd; if (w) s += std::to_string(w); if (p >= 0) { s += '.'; s += std::to_string(p); } s += "}]";
        op_fmt(s, {mk_str(form, sc)});
    }
    // precision cuts at every byte position of a text holding 2-, 3- and 4-byte characters (a cut inside a character is
    // what the sink's validation mode then has to deal with: exactly those bytes, no fewer)
    for (AnyArg::T form : {AnyArg::S_CSTR, AnyArg::S_ST, AnyArg::S_STD, AnyArg::S_U16Z, AnyArg::S_WSTD}) for (int p = 0; p <= 13; ++p) for (const char *w : {"", "9", ">9"}) {
        Bytes sp = "["; sp += "{"; sp += w; sp += '.'; sp += std::to_string(p); sp += "}]";
        op_fmt(sp, {mk_str(form, {'a', 0xE9, 'b', 0x20AC, 'c', 0x1F600, 'd'})});
        if (p <= 4) op_fmt(sp, {mk_str(form, {0xA9, 0xE9, 0xFF})});
    }
    // an argument whose own formatter calls ST::format while the outer call is running
    for (const char *lit : {"", "release ", "0123456789012345678901234567890123456789"}) for (int len : {0, 1, 4, 20, 300}) for (const char *sp : {"{}", "{>8}", "{.3}"}) {
        std::vector<uint32_t> sc; for (int i = 0; i < len; ++i) sc.push_back(i % 7 == 3 ? 0xE9 : 'a' + i % 26);
        AnyArg n = mk_str(AnyArg::S_NESTED, sc);
        op_fmt(Bytes(lit) + sp + " ready", {n}); op_fmt(Bytes(lit) + sp + "|{}|" + sp, {n, mk_int(AnyArg::I32, -5, 0)});
    }
    for (int b = 0; b < 2; ++b) for (const char *s : {"{}", "{6}", "{>6}", "{_.<7}", "{.2}", "{.0}", "{x}", "{c}"}) op_fmt(s, {mk_int(AnyArg::BOOL, 0, b)});
    // code points through the character class
    for (long long cp : {0x41LL, 0x7FLL, 0x80LL, 0xE9LL, 0x7FFLL, 0x800LL, 0x20ACLL, 0xD7FFLL, 0xD800LL, 0xDFFFLL, 0xE000LL, 0xFFFFLL, 0x10000LL, 0x1F600LL, 0x10FFFFLL, 0x110000LL, -1LL, 0x100000041LL, -0xFFFFFFBFLL})
        for (AnyArg::T t : {AnyArg::I32, AnyArg::U32, AnyArg::I64, AnyArg::U64, AnyArg::C32, AnyArg::WCHAR, AnyArg::C16, AnyArg::I16, AnyArg::CHAR})
            { op_fmt("<{c}>", {mk_int(t, cp, (unsigned long long)cp, 1)});
              if (t == AnyArg::I32 || t == AnyArg::C32 || t == AnyArg::U64) for (const char *pc : {"<{.0c}>", "<{.1c}>", "<{.2c}>", "<{.3c}>", "<{.9c}>", "<{+c}>", "<{#c}>"}) op_fmt(pc, {mk_int(t, cp, (unsigned long long)cp, 1)}); }
    // chunk boundaries inside a multi-byte character (sinks that transcode chunk by chunk)
    op_fmt("{1_\xC3}\xA9", {mk_str(AnyArg::S_CSTR, {})});
    op_fmt("\xC3{}\xA9", {mk_str(AnyArg::S_ST, {})});
    op_fmt("\xE2\x82{{\xAC", {});
    op_fmt("{}\xA9|{_\xC3" "3}\xA9", {mk_bytes(AnyArg::S_STD, "\xC3"), mk_bytes(AnyArg::S_STD, "")});
    op_fmt("{_\xE9" "4}", {mk_int(AnyArg::I32, 7, 7)});
    // argument order and references
    for (const char *s : {"{}{}{}", "{&2}{}{&1}{}", "{&3}{&3}{}", "{}{&1}{}{}", "{&1}{&2}{&3}{}", "{&4}", "{&0}", "{}{}{}{}", "{&-1}{&-5}{}", "{& 2}{&+1}"})
        op_fmt(s, {mk_int(AnyArg::I32, 1, 1), mk_str(AnyArg::S_CSTR, {'b'}), mk_int(AnyArg::BOOL, 1, 1)});
}
static void gen_random_bytes(Rng &rng, long long count) {
    static const unsigned char special[] = {'{', '}', '_', '.', '&', '0', '1', '9', 'x', 'c', ' ', '-', '+', '<', '>', '#', 'a', 0xC3, 0xA9, '\t', 'E'};
    auto L = arg_lists();
    for (long long k = 0; k < count; ++k) {
        Bytes f; int n = (int)rng.below(40);
        for (int i = 0; i < n; ++i) { unsigned char c = rng.below(5) ? special[rng.below(sizeof special)] : (unsigned char)(1 + rng.below(255)); f.push_back((char)c); }
        // a digit run that can be a field WIDTH stays below 1000 (a larger one legitimately asks for megabytes of
        // padding); after '.' or '&' (precision, argument reference) any length is harmless
        Bytes g; int run = 0; char before = 0;
        for (char c : f) {
            if (c >= '0' && c <= '9') { ++run; if (run > ((before == '.' || before == '&') ? 8 : 3)) continue; }
            else { run = 0; before = c; }
            g.push_back(c);
        }
        if (rng.below(10) == 0) { size_t pos = g.find_first_of(".&"); if (pos != Bytes::npos) g.insert(pos + 1, "123456789012345678901234"); }
        op_fmt(g, L[rng.below(L.size())]);
    }
}

static void gen_ints(const std::string &mode, Rng &rng, long long count) {
    static const int qbases[] = {2, 8, 10, 16, 36};
    if (mode == "all16") {
        long long lo = env_ll("INT_LO", 0), hi = env_ll("INT_HI", 65536);
        bool allb = env_ll("INT_ALLBASES", 0) != 0;
        for (long long v = lo; v < hi; ++v) {
            if (allb) { for (int base = 2; base <= 36; ++base) for (int up = 0; up < 2; ++up) { op_int(0, (short)v, 0, base, up); op_int(4, 0, (unsigned short)v, base, up); } }
            else for (int base : qbases) { op_int(0, (short)v, 0, base, base > 10 && (v & 1)); op_int(4, 0, (unsigned short)v, base, base > 10 && !(v & 1)); }
        }
        return;
    }
    if (mode == "bounds") {
        std::vector<unsigned long long> vals = {0, 1};
        for (int k = 1; k < 64; ++k) { vals.push_back((1ull << k) - 1); vals.push_back(1ull << k); vals.push_back((1ull << k) + 1); }
        vals.push_back(~0ull);
        for (int b = 2; b <= 36; ++b) { unsigned long long p = 1; for (int j = 0; j < 64 && p <= ~0ull / b; ++j) { p *= b; vals.push_back(p - 1); vals.push_back(p); vals.push_back(p + 1); } }
        for (unsigned long long u : vals) for (int base = 2; base <= 36; ++base) for (int kind = 0; kind < 8; ++kind) {
            bool up = (base + kind) & 1;
            op_int(kind, (long long)u, u, base, up);
            if (kind < 4) op_int(kind, (long long)(0ull - u), 0, base, up);
        }
        for (int kind = 0; kind < 4; ++kind) for (int base = 2; base <= 36; ++base) { op_int(kind, LLONG_MIN, 0, base, false); op_int(kind, INT_MIN, 0, base, false); op_int(kind, SHRT_MIN, 0, base, true); op_int(kind, LLONG_MIN + 1, 0, base, false); }
        return;
    }
    for (long long k = 0; k < count; ++k) {
        unsigned long long u = rng.next() >> rng.below(64);
        int base = 2 + (int)rng.below(35), kind = (int)rng.below(8);
        op_int(kind, rng.below(2) ? (long long)u : (long long)(0ull - u), u, base, rng.below(2));
    }
}
static void gen_parse(Rng &rng, long long count) {
    static const char *fixed[] = {"", " ", "0", "-0", "+0", "00", "0x", "0x1", "0X1f", "0xg", "08", "010", "0b101", " 42", "\t\n 42", "42 ", "42abc", "-42", "+42", "--42", "+-1", "- 1",
        "2147483647", "2147483648", "-2147483648", "-2147483649", "4294967295", "4294967296", "9223372036854775807", "9223372036854775808", "-9223372036854775808", "-9223372036854775809",
        "18446744073709551615", "18446744073709551616", "99999999999999999999999", "-99999999999999999999999", "32767", "32768", "-32768", "-32769", "65535", "65536", "-1", "zz", "Zz", "z", "1e5", "0x", "x1", "1_000", "\xC3\xA9" "1", "12\xFF"};
    for (const char *t : fixed) for (int base : {0, 2, 8, 10, 16, 36}) op_parse(t, base);
    op_parse(Bytes("12\0" "34", 5), 10); op_parse(Bytes("\0" "12", 3), 10); op_parse(Bytes("0x1\0", 4), 0); op_parse(Bytes("7\0", 2), 8);
    static const char alpha[] = "0123456789abcdefxzXZ+- \t.";
    for (long long k = 0; k < count; ++k) {
        Bytes t; int n = (int)rng.below(24);
        for (int i = 0; i < n; ++i) t.push_back(rng.below(12) ? alpha[rng.below(sizeof alpha - 1)] : (char)rng.below(256));
        static const int bases[] = {0, 2, 8, 10, 16, 36, 7, 35, 3};
        op_parse(t, bases[rng.below(9)]);
    }
}
static void gen_floats(Rng &rng, long long count, bool heavy) {
    std::vector<double> vals = {0.0, -0.0, 1.0, -1.0, 0.5, 1.5, -2.25, 0.1, 1e-5, 123456789.0, 1e15, 1e16, 1e17, 1e22, 1e23, 1e100, -1e100, 1e300, DBL_MAX, -DBL_MAX, DBL_MIN, 4.9406564584124654e-324,
                                (double)FLT_MAX, (double)FLT_MIN, INFINITY, -INFINITY, NAN, 3.141592653589793, 2.5e-310, 1e-300, 9.999999e9, 999999.5, 0.000123456, 65536.0, 1e6, 1e7};
    for (int k = -30; k <= 40; k += heavy ? 1 : 7) vals.push_back(std::pow(10.0, k));
    for (int k = -60; k <= 80; k += heavy ? 3 : 17) vals.push_back(std::ldexp(1.0, k));
    static const char nots[] = {'g', 'f', 'e', 'E'};
    static const int precs[] = {-1, 0, 1, 6, 17, 40, 60, 400};
    for (double v : vals) for (char n : nots) for (int isf = 0; isf < 2; ++isf) {
        op_float(v, isf, n, -1, false, 0, 0, 0, false);
        for (int p : precs) { if (!heavy && p > 17 && std::fabs(v) > 1e20) { if (p != 40) continue; } op_float(v, isf, n, p, false, 0, 0, 0, false); }
        op_float(v, isf, n, 3, true, 0, 0, 0, false);
        op_float(v, isf, n, -3, false, 0, 0, 0, false); op_float(v, isf, n, INT_MIN, false, 9, 1, 0, false);
        for (int w : {5, 12, 80}) for (int al = 0; al < 3; ++al) op_float(v, isf, n, 2, (w & 1) != 0, w, al, al == 1 ? '*' : 0, al == 2);
    }
    for (long long k = 0; k < count; ++k) {
        unsigned long long b = rng.next(); double v; memcpy(&v, &b, 8);
        if (rng.below(4) == 0) v = (double)(long long)(rng.next() >> rng.below(60)) / (double)(1 + rng.below(1000));
        op_float(v, rng.below(2), nots[rng.below(4)], rng.below(3) ? -1 : (int)rng.below(20), rng.below(2), rng.below(3) ? 0 : (int)rng.below(40), (int)rng.below(3), rng.below(3) ? 0 : '_', rng.below(4) == 0);
    }
    static const char *texts[] = {"", " ", "0", "1.5", "-1.5e10", "1e400", "-1e400", "1e-400", "inf", "-INF", "nan", "NAN(1)", "0x1p4", "0x1.8p1", " 2.5", "2.5 ", "2.5x", ".5", "5.", "+.5e+2", "e5", "--1", "1,5", "1e", "1e+", "infinity", "infinit"};
    for (const char *t : texts) op_parsef(t);
    op_parsef(Bytes("1.5\0" "2", 5)); op_parsef(Bytes("\0", 1));
    // texts at and just above the midpoint of two adjacent floats: to_float must round once (strtof), not twice
    // (strtod, then narrowing), and to_double must not go through float
    for (int k = 0; k < 60; ++k) {
        float a = std::ldexp(1.0f + (float)rng.below(1u << 23) / (float)(1u << 23), (int)rng.below(30) - 10);
        float b = std::nextafterf(a, INFINITY);
        double m = ((double)a + (double)b) / 2;
        char t[200]; snprintf(t, sizeof t, "%.90f", m);
        Bytes exact = t; while (!exact.empty() && exact.back() == '0') exact.pop_back();
        op_parsef(exact); op_parsef(exact + "0000000000000000000000001"); op_parsef("-" + exact + "1");
    }
    static const char alpha[] = "0123456789.eE+-xpinfa ";
    for (long long k = 0; k < count / 4 + 50; ++k) { Bytes t; int n = (int)rng.below(16); for (int i = 0; i < n; ++i) t.push_back(alpha[rng.below(sizeof alpha - 1)]); op_parsef(t); }
}

static void gen_streamio(Rng &rng, long long count) {
    static const uint32_t pool[] = {'a', 'Z', ' ', '\t', '\n', 0xE9, 0x20AC, 0x1F600, '0', 0x7F, 0xA0, 0x3000, 0};
    for (const auto &sc : std::vector<std::vector<uint32_t>>{{}, {'a'}, {'a', ' ', 'b'}, {' ', 'a'}, {0xE9}, {0x20AC, 0x1F600}, {'a', 0x1F600, ' ', 'b'}, {' '}, {'\t', 'x', '\n', 'y'}, {0}, {'a', 0, 'b'}, {0, 'x', 0x20AC}, {'a', 'b', 0}}) op_stream_io(sc);
    for (long long k = 0; k < count; ++k) { std::vector<uint32_t> sc; int n = (int)rng.below(20); for (int i = 0; i < n; ++i) sc.push_back(pool[rng.below(13)]); op_stream_io(sc); }
}

static void gen_file(const char *path) {
    // replay: "fmt <hex> ; arg ; arg" is too rich for a line format: replays re-run the generator shard instead (see lib/p_format.py)
    (void)path;
}

int main(int argc, char **argv) {
    install_handlers();
    _ST_PRIVATE::verif_assert_hook() = assert_hook;
    std::string gen = "tokens", mode = "all16"; std::vector<long long> tokens = {123, 125, 95, 46, 38, 48, 53, 120, 99, 32, 45, 97, 195};
    int maxlen = 3; long long count = 1000; bool heavy = false;
    uint64_t seed = (uint64_t)env_ll("VERIF_SEED", 1);
    for (int a = 1; a < argc; ++a) {
        std::string k = argv[a]; const char *v = a + 1 < argc ? argv[a + 1] : "";
        if (k == "--gen") { gen = v; ++a; } else if (k == "--tokens") { tokens = parse_list(v); ++a; }
        else if (k == "--maxlen") { maxlen = atoi(v); ++a; } else if (k == "--count") { count = atoll(v); ++a; }
        else if (k == "--seed") { seed = strtoull(v, 0, 0); ++a; } else if (k == "--mode") { mode = v; ++a; }
        else if (k == "--shard") { sscanf(v, "%lld/%lld", &SH.shard, &SH.nshards); ++a; }
        else if (k == "--from") { SH.from = atoll(v); ++a; } else if (k == "--heavy") heavy = true;
        else if (k == "--nosinks") g_sinks = false;
        else { fprintf(stderr, "unknown arg %s\n", k.c_str()); return 2; }
    }
    Out &o = out();
    o.s("{").k("e").q("Platform").c(',').k("i").i(-1).c(',').k("char_signed").i(CHAR_MIN < 0).c(',').k("wchar_bits").i(sizeof(wchar_t) * 8)
     .c(',').k("long_bits").i(sizeof(long) * 8).c(',').k("dflt").q(ST_DEFAULT_VALIDATION == ST::check_validity ? "check" : ST_DEFAULT_VALIDATION == ST::substitute_invalid ? "substitute" : "assume").s("}\n");
    Rng rng(seed);
    if (gen == "tokens") gen_tokens(tokens, maxlen, heavy);
    else if (gen == "fields") gen_fields(rng, count);
    else if (gen == "numfields") gen_numfields();
    else if (gen == "layouts") gen_int_layouts();
    else if (gen == "randbytes") gen_random_bytes(rng, count);
    else if (gen == "ints") gen_ints(mode, rng, count);
    else if (gen == "parse") gen_parse(rng, count);
    else if (gen == "floats") gen_floats(rng, count, heavy);
    else if (gen == "streamio") gen_streamio(rng, count);
    else if (gen == "ffreuse") gen_ffreuse();
    else { fprintf(stderr, "unknown generator %s\n", gen.c_str()); return 2; }
    o.flush();
    fprintf(stderr, "exec_format: inputs=%lld events=%lld\n", SH.idx, g_events);
    return 0;
}
