// Executor for comparison, searching, slicing, splitting, replacing (C06-C09).
// For each generated input it calls every overload form of the operation and
// records the results, grouped by identical result.  No expectations here.
#include "common/verif.h"
#include "common/alloc_shim.inc"

#include <string_theory/string>
#include <functional>
#include <filesystem>
#include <map>
#include <unordered_map>
#include <climits>

using namespace vf;
using ST::string;
typedef const char8_t *c8p;
typedef std::string Bytes;   // raw bytes of a test string

static void assert_hook(const char *file, int line, const char *msg) { throw assert_failure{file, line, msg}; }

// ---------------------------------------------------------------- helpers ---
static std::string jbytes(const char *p, size_t n) { Out o; put_units(o, p, n); return o.b; }
static std::string jbytes(const Bytes &b) { return jbytes(b.data(), b.size()); }
static std::string jstr(const string &s) { return jbytes(s.c_str(), s.size()); }
static std::string jint(long long v) { Out o; o.i(v); return o.b; }
static std::string jsign(int v) { return v < 0 ? "-1" : v > 0 ? "1" : "0"; }
static std::string jnum(unsigned long long mag, bool neg = false) {
    Out o; o.s("{").k("s").i(neg ? -1 : 1).c(',').k("m"); put_limbs(o, mag); o.c('}'); return o.b;
}
static std::string jsnum(long long v) { return v < 0 ? jnum(0ull - (unsigned long long)v, true) : jnum((unsigned long long)v); }
static std::string jlist(const std::vector<string> &v) {
    std::string r = "[";
    for (size_t i = 0; i < v.size(); ++i) { if (i) r += ','; r += jstr(v[i]); }
    return r + "]";
}
// the test object: built without validation so that any bytes can be held
static string S(const Bytes &b) { return string::from_validated(b.data(), b.size()); }
static bool nulfree(const Bytes &b) { return b.find('\0') == Bytes::npos; }
static bool ascii(const Bytes &b) { for (unsigned char c : b) if (c >= 0x80) return false; return true; }

struct Groups {
    std::vector<std::string> order;
    std::map<std::string, std::vector<std::string>> forms;
    void add(const std::string &kind, const std::string &val, const std::string &form) {
        std::string key = "\"k\":\"" + kind + "\"," + val;
        auto it = forms.find(key);
        if (it == forms.end()) { order.push_back(key); forms[key].push_back(form); } else it->second.push_back(form);
    }
    // run f (returns the JSON of the value); exceptions are recorded as results
    template <class F> void run(const char *kind, const char *form, F f) {
        std::string val;
        alloc_state().count = 0;
        try { val = "\"res\":\"ok\",\"v\":" + f(); }
        catch (const ST::unicode_error &e) { val = "\"res\":\"unicode_error\",\"v\":0"; }
        catch (const std::bad_alloc &) { val = "\"res\":\"bad_alloc\",\"v\":0"; }
        catch (const assert_failure &a) { val = "\"res\":\"assert\",\"v\":0"; }
        catch (const std::exception &e) { val = "\"res\":\"" + demangle(typeid(e).name()) + "\",\"v\":0"; }
        add(kind, val, form);
    }
    void emit(Out &o) {
        o.k("g").c('[');
        for (size_t i = 0; i < order.size(); ++i) {
            if (i) o.c(',');
            o.c('{').s(order[i]).c(',').k("f").c('[');
            const auto &fs = forms[order[i]];
            for (size_t j = 0; j < fs.size(); ++j) { if (j) o.c(','); o.q(fs[j]); }
            o.s("]}");
        }
        o.c(']');
    }
};

struct Shard { long long idx = 0, shard = 0, nshards = 1, from = 0;
    bool take() { long long i = idx++; return i % nshards == shard && i >= from; } };
static Shard SH;
static long long g_events = 0;

static void begin(Out &h, const char *op) { h.s("{").k("e").q(op).c(',').k("i").i(SH.idx - 1); }
static void finish(Out &h, Groups &g) {
    Out &o = out();
    o.s(h.b).c(','); g.emit(o); o.s("}\n"); o.maybe_flush(); ++g_events;
}
#define CS(ci) ((ci) ? ST::case_insensitive : ST::case_sensitive)
#define HASNUL(b) (!nulfree(b))

// terminated exact copies for C-string forms
struct Z { Exact<char> e; Z(const Bytes &b) : e((b + '\0').data(), b.size() + 1) {} const char *p() const { return e.p; } };

// --------------------------------------------------------------- extras ---
// Beyond the listed properties (X01): element access, iteration, fill, boolean text.
template <class T> static void access_forms(Groups &g, const char *tn, const Bytes &s, unsigned long long idx) {
    std::basic_string<T> w; for (unsigned char c : s) w += (T)c;
    Exact<T> e(w.data(), w.size());
    ST::buffer<T> b(e.p, e.n); const ST::buffer<T> &cb = b;
    std::string t = tn;
    typedef typename std::make_unsigned<T>::type UT;
    auto u = [](T x) { return jint((long long)(UT)x); };
    g.run("at", (t + ".at(i)").c_str(), [&] { return u(b.at((size_t)idx)); });
    g.run("at", (t + ".at(i) const").c_str(), [&] { return u(cb.at((size_t)idx)); });
    if (idx <= s.size()) { g.run("index", (t + "[i]").c_str(), [&] { return u(b[(size_t)idx]); }); g.run("index", (t + "[i] const").c_str(), [&] { return u(cb[(size_t)idx]); }); }
    g.run("front", (t + ".front()").c_str(), [&] { return u(b.front()); });
    g.run("front", (t + ".front() const").c_str(), [&] { return u(cb.front()); });
    g.run("back", (t + ".back()").c_str(), [&] { return u(b.back()); });
    g.run("back", (t + ".back() const").c_str(), [&] { return u(cb.back()); });
    auto lst = [](auto first, auto last) { std::string r = "["; bool f = true; for (; first != last; ++first) { if (!f) r += ','; f = false; r += std::to_string((unsigned long)(UT)(T)*first); } return r + "]"; };
    g.run("iter", (t + " begin..end").c_str(), [&] { return lst(b.begin(), b.end()); });
    g.run("iter", (t + " cbegin..cend").c_str(), [&] { return lst(cb.cbegin(), cb.cend()); });
    g.run("iter", (t + " const begin..end").c_str(), [&] { return lst(cb.begin(), cb.end()); });
    g.run("riter", (t + " rbegin..rend").c_str(), [&] { return lst(b.rbegin(), b.rend()); });
    g.run("riter", (t + " crbegin..crend").c_str(), [&] { return lst(cb.crbegin(), cb.crend()); });
    g.run("size", (t + ".size()").c_str(), [&] { return jint((long long)cb.size()); });
    g.run("empty", (t + ".empty()").c_str(), [&] { return jint(cb.empty()); });
}
static void op_access(const Bytes &s, unsigned long long idx) {
    if (!SH.take()) return;
    Out h; begin(h, "access"); h.c(',').k("s").s(jbytes(s)).c(',').k("idx").s(jnum(idx));
    set_cur(SH.idx - 1, h.b + "}");
    Groups g; string ss = S(s);
    auto u = [](char x) { return jint((unsigned char)x); };
    g.run("at", "string.at(i)", [&] { return u(ss.at((size_t)idx)); });
    if (idx <= s.size()) g.run("index", "string[i]", [&] { return u(ss[(size_t)idx]); });
    g.run("front", "string.front()", [&] { return u(ss.front()); });
    g.run("back", "string.back()", [&] { return u(ss.back()); });
    auto lst = [](auto first, auto last) { std::string r = "["; bool f = true; for (; first != last; ++first) { if (!f) r += ','; f = false; r += std::to_string((unsigned)(unsigned char)*first); } return r + "]"; };
    g.run("iter", "string begin..end", [&] { return lst(ss.begin(), ss.end()); });
    g.run("iter", "string cbegin..cend", [&] { return lst(ss.cbegin(), ss.cend()); });
    g.run("iter", "string range-for", [&] { std::string r = "["; bool f = true; for (char c : ss) { if (!f) r += ','; f = false; r += std::to_string((unsigned)(unsigned char)c); } return r + "]"; });
    g.run("riter", "string rbegin..rend", [&] { return lst(ss.rbegin(), ss.rend()); });
    g.run("riter", "string crbegin..crend", [&] { return lst(ss.crbegin(), ss.crend()); });
    g.run("size", "string.size()", [&] { return jint((long long)ss.size()); });
    g.run("empty", "string.empty()", [&] { return jint(ss.empty()); });
    access_forms<char>(g, "char_buffer", s, idx);
    access_forms<char16_t>(g, "utf16_buffer", s, idx);
    access_forms<char32_t>(g, "utf32_buffer", s, idx);
    access_forms<wchar_t>(g, "wchar_buffer", s, idx);
    finish(h, g);
}
static void op_fill(unsigned long long count, int ch) {
    if (!SH.take()) return;
    Out h; begin(h, "fill"); h.c(',').k("n").i((long long)count).c(',').k("ch").i(ch);
    set_cur(SH.idx - 1, h.b + "}");
    Groups g;
    g.run("fill", "string::fill(n,c)", [&] { return jstr(string::fill((size_t)count, (char)ch)); });
    g.run("fill", "buffer(n,c)", [&] { ST::char_buffer b((size_t)count, (char)ch); return jbytes(Bytes(b.data(), b.size())); });
    g.run("fill", "allocate(n,c)", [&] { ST::char_buffer b; b.allocate((size_t)count, ch); return jbytes(Bytes(b.data(), b.size())); });
    finish(h, g);
}
static void op_bool(const Bytes &s) {
    if (!SH.take()) return;
    Z z(s); char *e; long lv = strtol(z.p(), &e, 0); long consumed = e - z.p();
    Out h; begin(h, "tobool"); h.c(',').k("s").s(jbytes(s)).c(',').k("libc_nonzero").i((int)lv != 0).c(',').k("consumed").i(consumed);
    set_cur(SH.idx - 1, h.b + "}");
    Groups g; string ss = S(s);
    g.run("val", "to_bool()", [&] { return jint(ss.to_bool()); });
    g.run("valr", "to_bool(result)", [&] { ST::conversion_result r; bool v = ss.to_bool(r); return "[" + jint(v) + "," + jint(r.ok()) + "," + jint(r.full_match()) + "]"; });
    g.run("from", "from_bool(to_bool())", [&] { return jstr(string::from_bool(ss.to_bool())); });
    finish(h, g);
}

// Beyond the listed properties (X02): exact hash values, c_str(substitute), views, std::string copies, literals.
static std::string jlimbs(unsigned long long v) { Out o; put_limbs(o, v); return o.b; }
static void op_hashv(const Bytes &s) {
    if (!SH.take()) return;
    Out h; begin(h, "hashv"); h.c(',').k("s").s(jbytes(s)).c(',').k("bits").i((long long)(8 * sizeof(size_t))).c(',').k("sx").i(CHAR_MIN < 0);
    set_cur(SH.idx - 1, h.b + "}");
    Groups g; string ss = S(s);
    g.run("hash", "ST::hash", [&] { return jlimbs(ST::hash()(ss)); });
    g.run("hash", "std::hash<ST::string>", [&] { return jlimbs(std::hash<string>()(ss)); });
    g.run("hash", "ST::hash of a copy", [&] { string c = ss; return jlimbs(ST::hash()(c)); });
    g.run("hash_i", "ST::hash_i", [&] { return jlimbs(ST::hash_i()(ss)); });
    g.run("hash_i", "ST::hash_i of to_upper()", [&] { return jlimbs(ST::hash_i()(ss.to_upper())); });
    finish(h, g);
}
template <class T> static void view_forms(Groups &g, const char *tn, const Bytes &s, size_t start, unsigned long long len, bool autolen) {
    std::basic_string<T> w; for (unsigned char c : s) w += (T)c;
    Exact<T> e(w.data(), w.size());
    const ST::buffer<T> b(e.p, e.n);
    std::string t = tn;
    typedef typename std::make_unsigned<T>::type UT;
    auto lst = [](const T *p, size_t n) { std::string r = "["; for (size_t i = 0; i < n; ++i) { if (i) r += ','; r += std::to_string((unsigned long)(UT)p[i]); } return r + "]"; };
    auto rec = [&](std::basic_string_view<T> v) { return "{\"b\":" + lst(v.data(), v.size()) + ",\"off\":" + jint((long long)(v.data() - b.data())) + "}"; };
    if (autolen) {
        g.run("view", (t + ".view(start)").c_str(), [&] { return rec(b.view(start)); });
        if (start == 0) g.run("view", (t + ".view()").c_str(), [&] { return rec(b.view()); });
    } else g.run("view", (t + ".view(start,len)").c_str(), [&] { return rec(b.view(start, (size_t)len)); });
    if (start == 0 && autolen) {
        g.run("copy", (t + ".to_std_string()").c_str(), [&] { auto c = b.to_std_string(); return lst(c.data(), c.size()); });
        g.run("copy", (t + " data()..data()+size()").c_str(), [&] { return lst(b.data(), b.size()); });
        g.run("term", (t + " data()[size()]").c_str(), [&] { return jint((long long)(UT)b.data()[b.size()]); });
        g.run("term", (t + " *end()").c_str(), [&] { return jint((long long)(UT)*b.end()); });
    }
}
// contract: start <= size(), len <= size() - start (or the automatic length)
static void op_view(const Bytes &s, size_t start, unsigned long long len, bool autolen) {
    if (!SH.take()) return;
    Out h; begin(h, "view"); h.c(',').k("s").s(jbytes(s)).c(',').k("start").i((long long)start).c(',').k("len").i(autolen ? -1 : (long long)len);
    set_cur(SH.idx - 1, h.b + "}");
    Groups g; const string ss = S(s);
    auto lst = [](const char *p, size_t n) { return jbytes(p, n); };
    auto rec = [&](std::string_view v) { return "{\"b\":" + lst(v.data(), v.size()) + ",\"off\":" + jint((long long)(v.data() - ss.c_str())) + "}"; };
    if (autolen) {
        g.run("view", "string.view(start)", [&] { return rec(ss.view(start)); });
        if (start == 0) g.run("view", "string.view()", [&] { return rec(ss.view()); });
    } else g.run("view", "string.view(start,len)", [&] { return rec(ss.view(start, (size_t)len)); });
    if (start == 0 && autolen) {
        g.run("copy", "string.to_std_string()", [&] { auto c = ss.to_std_string(); return lst(c.data(), c.size()); });
        g.run("copy", "string.to_std_string(true,false)", [&] { auto c = ss.to_std_string(true, false); return lst(c.data(), c.size()); });
        g.run("copy", "string.to_std_string(std::string&)", [&] { std::string c = "previous contents"; ss.to_std_string(c); return lst(c.data(), c.size()); });
        g.run("copy", "string.to_utf8()", [&] { auto c = ss.to_utf8(); return lst(c.data(), c.size()); });
        g.run("copy", "string c_str()..+size()", [&] { return lst(ss.c_str(), ss.size()); });
#ifdef ST_HAVE_CXX20_CHAR8_TYPES
        g.run("copy", "string u8_str()..+size()", [&] { return lst((const char *)ss.u8_str(), ss.size()); });
        g.run("copy", "string.to_std_u8string()", [&] { std::u8string c; ss.to_std_string(c); return lst((const char *)c.data(), c.size()); });
#endif
        g.run("copy", "string.to_path().string()", [&] { auto c = ss.to_path().string(); return lst(c.data(), c.size()); });
        g.run("copy", "string::from_path(path)", [&] { auto c = string::from_path(std::filesystem::path(std::string(s))); return lst(c.c_str(), c.size()); });
        g.run("copy", "string(path)", [&] { std::filesystem::path pp{std::string(s)}; string c(pp); return lst(c.c_str(), c.size()); });
        g.run("term", "string c_str()[size()]", [&] { return jint((unsigned char)ss.c_str()[ss.size()]); });
    }
    view_forms<char>(g, "char_buffer", s, start, len, autolen);
    view_forms<char16_t>(g, "utf16_buffer", s, start, len, autolen);
    view_forms<char32_t>(g, "utf32_buffer", s, start, len, autolen);
    view_forms<wchar_t>(g, "wchar_buffer", s, start, len, autolen);
    finish(h, g);
}
template <class T> static void cstr_forms(Groups &g, const char *tn, const Bytes &s, const Bytes &sub) {
    std::basic_string<T> w, ws; for (unsigned char c : s) w += (T)c; for (unsigned char c : sub) ws += (T)c;
    Exact<T> e(w.data(), w.size()); Exact<T> es(ws.c_str(), ws.size() + 1);
    const ST::buffer<T> b(e.p, e.n);
    std::string t = tn;
    typedef typename std::make_unsigned<T>::type UT;
    auto zl = [](const T *p) { std::string r = "["; for (size_t i = 0; p[i]; ++i) { if (i) r += ','; r += std::to_string((unsigned long)(UT)p[i]); } return r + "]"; };
    g.run("cstr", (t + ".c_str(sub)").c_str(), [&] { const T *p = b.c_str(es.p); return "{\"sub\":" + jint(p == es.p) + ",\"own\":" + jint(p == b.data()) + ",\"z\":" + zl(p) + "}"; });
    g.run("cstr0", (t + ".c_str()").c_str(), [&] { const T *p = b.c_str(); return "{\"sub\":0,\"own\":" + jint(p == b.data()) + ",\"z\":" + zl(p) + "}"; });
}
// NUL-free subject (the result is read as a C string)
static void op_cstr(const Bytes &s, const Bytes &sub) {
    if (!SH.take()) return;
    Out h; begin(h, "cstr"); h.c(',').k("s").s(jbytes(s)).c(',').k("sub").s(jbytes(sub));
    set_cur(SH.idx - 1, h.b + "}");
    Groups g; const string ss = S(s); Z zs(sub);
    auto zl = [](const char *p) { return jbytes(p, strlen(p)); };
    g.run("cstr", "string.c_str(sub)", [&] { const char *p = ss.c_str(zs.p()); return "{\"sub\":" + jint(p == zs.p()) + ",\"own\":" + jint(p == ss.c_str()) + ",\"z\":" + zl(p) + "}"; });
    g.run("cstr0", "string.c_str()", [&] { const char *p = ss.c_str(); return "{\"sub\":0,\"own\":" + jint(p == ss.begin()) + ",\"z\":" + zl(p) + "}"; });
    cstr_forms<char>(g, "char_buffer", s, sub);
    cstr_forms<char16_t>(g, "utf16_buffer", s, sub);
    cstr_forms<char32_t>(g, "utf32_buffer", s, sub);
    cstr_forms<wchar_t>(g, "wchar_buffer", s, sub);
    finish(h, g);
}
// user-defined literals: the text is known at compile time, so a fixed catalogue; "src" is the literal's content
#define LIT_EVENT(ID, BYTES, EXPR_ST, EXPR_BUF)                                                                        \
    if (SH.take()) { Bytes src BYTES; Out h; begin(h, "literal"); h.c(',').k("id").q(ID).c(',').k("s").s(jbytes(src));  \
        set_cur(SH.idx - 1, h.b + "}"); Groups g;                                                                     \
        g.run("lit", "_st", [&] { string r = EXPR_ST; return jstr(r); });                                             \
        g.run("lit", "_stbuf", [&] { auto r = EXPR_BUF; std::string q = "["; for (size_t i = 0; i < r.size(); ++i) { if (i) q += ','; q += std::to_string((unsigned long)r.data()[i]); } return q + "]"; }); \
        finish(h, g); }
static void gen_literals() {
    using namespace ST::literals;
    LIT_EVENT("empty", (""), ""_st, ""_stbuf)
    LIT_EVENT("ascii", ("hello"), "hello"_st, "hello"_stbuf)
    LIT_EVENT("nul", ("a\0b", 3), "a\0b"_st, "a\0b"_stbuf)
    LIT_EVENT("sso15", ("123456789012345"), "123456789012345"_st, "123456789012345"_stbuf)
    LIT_EVENT("sso16", ("1234567890123456"), "1234567890123456"_st, "1234567890123456"_stbuf)
    LIT_EVENT("long40", ("1234567890123456789012345678901234567890"), "1234567890123456789012345678901234567890"_st, "1234567890123456789012345678901234567890"_stbuf)
    LIT_EVENT("ascii16", ("hello"), u"hello"_st, "hello"_stbuf)
    LIT_EVENT("ascii32", ("hello"), U"hello"_st, "hello"_stbuf)
    LIT_EVENT("asciiw", ("hello"), L"hello"_st, "hello"_stbuf)
    LIT_EVENT("nul16", ("a\0b", 3), u"a\0b"_st, "a\0b"_stbuf)
    LIT_EVENT("nul32", ("a\0b", 3), U"a\0b"_st, "a\0b"_stbuf)
    LIT_EVENT("long16", ("1234567890123456789012345678901234567890"), u"1234567890123456789012345678901234567890"_st, "1234567890123456789012345678901234567890"_stbuf)
}

// ------------------------------------------------------------------ C06 ---
template <class T> static std::basic_string<T> widen(const Bytes &b) {
    std::basic_string<T> r; for (unsigned char c : b) r += (T)c; return r;
}
template <class T> static void buffer_cmp_forms(Groups &g, const char *tn, const Bytes &a, const Bytes &b) {
    auto wa = widen<T>(a), wb = widen<T>(b);
    Exact<T> ea(wa.data(), wa.size()), eb(wb.data(), wb.size());
    ST::buffer<T> ba(ea.p, ea.n), bb(eb.p, eb.n);
    std::string t = tn;
    g.run("sign", (t + ".compare(buf)").c_str(), [&] { return jsign(ba.compare(bb)); });
    g.run("sign", (t + "::compare(p,n,p,n)").c_str(), [&] { return jsign(ST::buffer<T>::compare(ea.p, ea.n, eb.p, eb.n)); });
    g.run("eq", (t + "==").c_str(), [&] { return jint(ba == bb); });
    g.run("ne", (t + "!=").c_str(), [&] { return jint(ba != bb); });
    g.run("lt", (t + "<").c_str(), [&] { return jint(ba < bb); });
    if (wb.find((T)0) == std::basic_string<T>::npos) {
        std::basic_string<T> z = wb; Exact<T> ez(z.c_str(), z.size() + 1);
        g.run("sign", (t + ".compare(z)").c_str(), [&] { return jsign(ba.compare(ez.p)); });
    }
}

template <class T> static void same_storage_forms(Groups &g, const char *tn, const Bytes &a, size_t nb) {
    auto wa = widen<T>(a); Exact<T> ea(wa.data(), wa.size());
    std::string t = tn;
    g.run("sign", (t + "::compare(p,na,p,nb) same address").c_str(), [&] { return jsign(ST::buffer<T>::compare(ea.p, ea.n, ea.p, nb)); });
    g.run("sign", (t + "::compare(p,na,p,nb,max) same address").c_str(), [&] { return jsign(ST::buffer<T>::compare(ea.p, ea.n, ea.p, nb, ~(size_t)0)); });
}

// comparison of wide buffers on units that are not bytes (C06): unit order, not byte order
template <class T> static void op_cmpw(int bits, const std::vector<long long> &a, const std::vector<long long> &b) {
    if (!SH.take()) return;
    // 32-bit units are logged as two 16-bit halves each (TLC integers are 32-bit signed): the order of the flattened
    // sequences is the order of the unit sequences (high half first; a proper prefix stays a proper prefix)
    auto jl = [bits](const std::vector<long long> &v) { std::string r = "["; for (size_t i = 0; i < v.size(); ++i) { if (i) r += ',';
        if (bits == 32) { r += std::to_string((v[i] >> 16) & 0xFFFF); r += ','; r += std::to_string(v[i] & 0xFFFF); } else r += std::to_string(v[i]); } return r + "]"; };
    Out h; begin(h, "cmpw"); h.c(',').k("w").i(bits).c(',').k("a").s(jl(a)).c(',').k("b").s(jl(b));
    set_cur(SH.idx - 1, h.b + "}");
    std::basic_string<T> wa, wb; for (long long x : a) wa += (T)x; for (long long x : b) wb += (T)x;
    Exact<T> ea(wa.data(), wa.size()), eb(wb.data(), wb.size());
    ST::buffer<T> ba(ea.p, ea.n), bb(eb.p, eb.n);
    Groups g;
    g.run("sign", "compare(buf)", [&] { return jsign(ba.compare(bb)); });
    g.run("sign", "compare(p,n,p,n)", [&] { return jsign(ST::buffer<T>::compare(ea.p, ea.n, eb.p, eb.n)); });
    g.run("eq", "==", [&] { return jint(ba == bb); });
    g.run("ne", "!=", [&] { return jint(ba != bb); });
    g.run("lt", "<", [&] { return jint(ba < bb); });
    if (wb.find((T)0) == std::basic_string<T>::npos) { Exact<T> ez(wb.c_str(), wb.size() + 1); g.run("sign", "compare(z)", [&] { return jsign(ba.compare(ez.p)); }); }
    finish(h, g);
}
static void gen_cmpw() {
    auto seqs = [](const std::vector<long long> &al) { std::vector<std::vector<long long>> r = {{}}; for (long long x : al) r.push_back({x}); for (long long x : al) for (long long y : al) r.push_back({x, y}); return r; };
    auto s16 = seqs({0, 0x41, 0xFF, 0x100, 0x7FFF, 0x8000, 0xFFFF});
    for (auto &a : s16) for (auto &b : s16) op_cmpw<char16_t>(16, a, b);
    auto s32 = seqs({0, 1, 0x41, 0xFFFF, 0x10000, 0x10FFFF, 0x7FFFFFFF, 0x80000000LL, 0x80000001LL, 0xFFFFFFFFLL});
    // wchar_t is a SIGNED 32-bit type here and std::char_traits<wchar_t> orders it as such: units >= 0x80000000 (no code
    // points anyway) are given to the unsigned char32_t buffers only - "unit order" is unambiguous below that
    auto small = [](const std::vector<long long> &v) { for (long long x : v) if (x > 0x7FFFFFFFLL) return false; return true; };
    for (auto &a : s32) for (auto &b : s32) { op_cmpw<char32_t>(32, a, b); if (small(a) && small(b)) op_cmpw<wchar_t>(sizeof(wchar_t) * 8, a, b); }
}

static void op_cmp(const Bytes &a, const Bytes &b) {
    if (!SH.take()) return;
    Out h; begin(h, "cmp"); h.c(',').k("a").s(jbytes(a)).c(',').k("b").s(jbytes(b));
    set_cur(SH.idx - 1, h.b + "}");
    Groups g; string sa = S(a), sb = S(b); Z zb(b);
    g.run("sign", "compare(string)", [&] { return jsign(sa.compare(sb)); });
    g.run("sign", "compare(string,cs)", [&] { return jsign(sa.compare(sb, ST::case_sensitive)); });
    g.run("eq", "==", [&] { return jint(sa == sb); });
    g.run("ne", "!=", [&] { return jint(sa != sb); });
    g.run("lt", "<", [&] { return jint(sa < sb); });
    // the hash of an object that is hashed, given another value of the same length, and hashed again
    g.run("hashre", "hash(reassigned)", [&] { string t = sa; size_t h0 = ST::hash()(t); (void)h0; t = sb; size_t h1 = ST::hash()(t); size_t h2 = ST::hash()(sb); return "[" + jnum(h1) + "," + jnum(h2) + "]"; });
    g.run("hashre", "std::hash(reassigned)", [&] { string t = sb; size_t h0 = std::hash<string>()(t); (void)h0; t = sa; size_t h1 = std::hash<string>()(t); (void)h1; t = sb; size_t h2 = std::hash<string>()(t); size_t h3 = std::hash<string>()(sb); return "[" + jnum(h2) + "," + jnum(h3) + "]"; });
    g.run("isign", "compare_i(string)", [&] { return jsign(sa.compare_i(sb)); });
    g.run("isign", "compare(string,ci)", [&] { return jsign(sa.compare(sb, ST::case_insensitive)); });
    g.run("ieq", "equal_i", [&] { return jint(ST::equal_i()(sa, sb)); });
    g.run("ilt", "less_i", [&] { return jint(ST::less_i()(sa, sb)); });
    if (nulfree(b)) {
        g.run("sign", "compare(z)", [&] { return jsign(sa.compare(zb.p())); });
        g.run("sign", "compare(c8z)", [&] { return jsign(sa.compare((c8p)zb.p())); });
        g.run("eq", "==z", [&] { return jint(sa == zb.p()); });
        g.run("ne", "!=z", [&] { return jint(sa != zb.p()); });
        g.run("eq", "==c8z", [&] { return jint(sa == (c8p)zb.p()); });
        g.run("isign", "compare_i(z)", [&] { return jsign(sa.compare_i(zb.p())); });
        g.run("isign", "compare_i(c8z)", [&] { return jsign(sa.compare_i((c8p)zb.p())); });
        g.run("isign", "compare(z,ci)", [&] { return jsign(sa.compare(zb.p(), ST::case_insensitive)); });
    }
    if (b.empty()) {
        g.run("sign", "compare((char*)0)", [&] { return jsign(sa.compare((const char *)nullptr)); });
        g.run("isign", "compare_i((char*)0)", [&] { return jsign(sa.compare_i((const char *)nullptr)); });
    }
    buffer_cmp_forms<char>(g, "char_buffer", a, b);
    buffer_cmp_forms<wchar_t>(g, "wchar_buffer", a, b);
    buffer_cmp_forms<char16_t>(g, "utf16_buffer", a, b);
    buffer_cmp_forms<char32_t>(g, "utf32_buffer", a, b);
    // operands that START AT THE SAME ADDRESS (b is a prefix of a): a length difference alone must decide
    if (b.size() <= a.size() && a.compare(0, b.size(), b) == 0) {
        same_storage_forms<char>(g, "char_buffer", a, b.size());
        same_storage_forms<wchar_t>(g, "wchar_buffer", a, b.size());
        same_storage_forms<char16_t>(g, "utf16_buffer", a, b.size());
        same_storage_forms<char32_t>(g, "utf32_buffer", a, b.size());
        // an object against its own C string (b = a up to its first NUL)
        if (nulfree(b) && (a.size() == b.size() || a[b.size()] == 0)) {
            g.run("sign", "compare(own c_str())", [&] { return jsign(sa.compare(sa.c_str())); });
            g.run("eq", "== own c_str()", [&] { return jint(sa == sa.c_str()); });
            g.run("ne", "!= own c_str()", [&] { return jint(sa != sa.c_str()); });
            g.run("isign", "compare_i(own c_str())", [&] { return jsign(sa.compare_i(sa.c_str())); });
            ST::char_buffer ba(a.data(), a.size());
            g.run("sign", "char_buffer.compare(own data())", [&] { return jsign(ba.compare(ba.data())); });
        }
    }
    // hashes (only equality between them is meaningful): pair [hash(a), hash(b)]
    auto hp = [&](size_t x, size_t y) { Out o; o.c('['); put_limbs(o, x); o.c(','); put_limbs(o, y); o.c(']'); return o.b; };
    g.run("hash", "ST::hash", [&] { return hp(ST::hash()(sa), ST::hash()(sb)); });
    g.run("hash", "std::hash", [&] { return hp(std::hash<string>()(sa), std::hash<string>()(sb)); });
    g.run("hash_i", "ST::hash_i", [&] { return hp(ST::hash_i()(sa), ST::hash_i()(sb)); });
    finish(h, g);
}

static void op_cmpn(const Bytes &a, const Bytes &b, unsigned long long n) {
    if (!SH.take()) return;
    Out h; begin(h, "cmpn"); h.c(',').k("a").s(jbytes(a)).c(',').k("b").s(jbytes(b)).c(',').k("n").s(jnum(n));
    set_cur(SH.idx - 1, h.b + "}");
    Groups g; string sa = S(a), sb = S(b); Z zb(b);
    ST::char_buffer ba(a.data(), a.size()), bb(b.data(), b.size());
    g.run("sign", "compare_n(string,n)", [&] { return jsign(sa.compare_n(sb, n)); });
    g.run("sign", "compare_n(string,n,cs)", [&] { return jsign(sa.compare_n(sb, n, ST::case_sensitive)); });
    g.run("sign", "char_buffer.compare_n(buf,n)", [&] { return jsign(ba.compare_n(bb, n)); });
    g.run("sign", "char_buffer::compare(p,n,p,n,max)", [&] { return jsign(ST::char_buffer::compare(a.data(), a.size(), b.data(), b.size(), n)); });
    g.run("isign", "compare_ni(string,n)", [&] { return jsign(sa.compare_ni(sb, n)); });
    g.run("isign", "compare_n(string,n,ci)", [&] { return jsign(sa.compare_n(sb, n, ST::case_insensitive)); });
    if (nulfree(b)) {
        g.run("sign", "compare_n(z,n)", [&] { return jsign(sa.compare_n(zb.p(), n)); });
        g.run("sign", "compare_n(c8z,n)", [&] { return jsign(sa.compare_n((c8p)zb.p(), n)); });
        g.run("sign", "char_buffer.compare_n(z,n)", [&] { return jsign(ba.compare_n(zb.p(), n)); });
        g.run("isign", "compare_ni(z,n)", [&] { return jsign(sa.compare_ni(zb.p(), n)); });
        g.run("isign", "compare_ni(c8z,n)", [&] { return jsign(sa.compare_ni((c8p)zb.p(), n)); });
    }
    finish(h, g);
}

// static compare with claimed sizes far beyond what is touched: only min(lsize, rsize[, maxlen]) units are given
template <class T> static void sized_forms(Groups &g, const char *tn, const Bytes &pa, unsigned long long ls,
                                           const Bytes &pb, unsigned long long rs, bool hasmax, unsigned long long mx) {
    auto wa = widen<T>(pa), wb = widen<T>(pb);
    Exact<T> ea(wa.data(), wa.size()), eb(wb.data(), wb.size());
    std::string t = tn;
    if (hasmax) g.run("sign", (t + "::compare(p,n,p,n,max)").c_str(), [&] { return jsign(ST::buffer<T>::compare(ea.p, ls, eb.p, rs, mx)); });
    else g.run("sign", (t + "::compare(p,n,p,n)").c_str(), [&] { return jsign(ST::buffer<T>::compare(ea.p, ls, eb.p, rs)); });
}
static void op_cmpsized(const Bytes &common, const Bytes &ta, const Bytes &tb, unsigned long long ls, unsigned long long rs,
                        bool hasmax, unsigned long long mx) {
    // operands: common prefix + one distinguishing unit each (ta/tb, possibly empty); touched = min(ls, rs[, mx])
    unsigned long long touched = std::min(ls, rs); if (hasmax) touched = std::min(touched, mx);
    Bytes pa = (common + ta).substr(0, (size_t)std::min<unsigned long long>(touched, (common + ta).size()));
    Bytes pb = (common + tb).substr(0, (size_t)std::min<unsigned long long>(touched, (common + tb).size()));
    if (pa.size() < touched || pb.size() < touched) return;   // would need more memory than we give: not generated
    if (!SH.take()) return;
    Out h; begin(h, "cmpsized"); h.c(',').k("pa").s(jbytes(pa)).c(',').k("ls").s(jnum(ls)).c(',').k("pb").s(jbytes(pb))
        .c(',').k("rs").s(jnum(rs)).c(',').k("hasmax").i(hasmax).c(',').k("mx").s(jnum(mx));
    set_cur(SH.idx - 1, h.b + "}");
    Groups g;
    sized_forms<char>(g, "char_buffer", pa, ls, pb, rs, hasmax, mx);
    sized_forms<wchar_t>(g, "wchar_buffer", pa, ls, pb, rs, hasmax, mx);
    sized_forms<char16_t>(g, "utf16_buffer", pa, ls, pb, rs, hasmax, mx);
    sized_forms<char32_t>(g, "utf32_buffer", pa, ls, pb, rs, hasmax, mx);
    finish(h, g);
}

static void op_matrix(const std::vector<Bytes> &strs) {
    if (!SH.take()) return;
    Out h; begin(h, "cmpmatrix"); h.c(',').k("strs").c('[');
    for (size_t i = 0; i < strs.size(); ++i) { if (i) h.c(','); h.s(jbytes(strs[i])); }
    h.c(']');
    set_cur(SH.idx - 1, "{\"e\":\"cmpmatrix\"}");
    std::vector<string> ss; for (auto &b : strs) ss.push_back(S(b));
    for (int ci = 0; ci < 2; ++ci) {
        h.c(',').k(ci ? "ci" : "cs").c('[');
        for (size_t i = 0; i < ss.size(); ++i) {
            if (i) h.c(',');
            h.c('[');
            for (size_t j = 0; j < ss.size(); ++j) { if (j) h.c(','); h.s(jsign(ci ? ss[i].compare_i(ss[j]) : ss[i].compare(ss[j]))); }
            h.c(']');
        }
        h.c(']');
    }
    Groups g; finish(h, g);
}

static void op_case(const Bytes &s) {
    if (!SH.take()) return;
    Out h; begin(h, "case"); h.c(',').k("s").s(jbytes(s));
    set_cur(SH.idx - 1, h.b + "}");
    Groups g; string ss = S(s);
    g.run("upper", "to_upper", [&] { return jstr(ss.to_upper()); });
    g.run("lower", "to_lower", [&] { return jstr(ss.to_lower()); });
    finish(h, g);
}

// ------------------------------------------------------------------ C07 ---
static void op_find(const Bytes &hay, const Bytes &n, unsigned long long start, bool ci) {
    if (!SH.take()) return;
    Out h; begin(h, "find"); h.c(',').k("h").s(jbytes(hay)).c(',').k("n").s(jbytes(n)).c(',').k("start").s(jnum(start)).c(',').k("ci").i(ci);
    set_cur(SH.idx - 1, h.b + "}");
    Groups g; string sh = S(hay), sn = S(n); Z zn(n); Exact<char> en(n.data(), n.size());
    auto cs = CS(ci);
    g.run("idx", "find(start,string,cs)", [&] { return jint(sh.find(start, sn, cs)); });
    g.run("idx", "find(start,p,n,cs)", [&] { return jint(sh.find(start, en.p, n.size(), cs)); });
    g.run("idx", "find(start,c8,n,cs)", [&] { return jint(sh.find(start, (c8p)en.p, n.size(), cs)); });
    if (n.size() == 1) g.run("idx", "find(start,ch,cs)", [&] { return jint(sh.find(start, n[0], cs)); });
    if (nulfree(n)) {
        g.run("idx", "find(start,z,cs)", [&] { return jint(sh.find(start, zn.p(), cs)); });
        g.run("idx", "find(start,c8z,cs)", [&] { return jint(sh.find(start, (c8p)zn.p(), cs)); });
    }
    if (n.empty()) g.run("idx", "find(start,(char*)0,cs)", [&] { return jint(sh.find(start, (const char *)nullptr, cs)); });
    if (start == 0) {
        g.run("idx", "find(string,cs)", [&] { return jint(sh.find(sn, cs)); });
        g.run("idx", "find(p,n,cs)", [&] { return jint(sh.find(en.p, n.size(), cs)); });
        g.run("idx", "find(c8,n,cs)", [&] { return jint(sh.find((c8p)en.p, n.size(), cs)); });
        g.run("has", "contains(string,cs)", [&] { return jint(sh.contains(sn, cs)); });
        g.run("has", "contains(p,n,cs)", [&] { return jint(sh.contains(en.p, n.size(), cs)); });
        g.run("has", "contains(c8,n,cs)", [&] { return jint(sh.contains((c8p)en.p, n.size(), cs)); });
        if (n.size() == 1) {
            g.run("idx", "find(ch,cs)", [&] { return jint(sh.find(n[0], cs)); });
            g.run("has", "contains(ch,cs)", [&] { return jint(sh.contains(n[0], cs)); });
        }
        if (nulfree(n)) {
            g.run("idx", "find(z,cs)", [&] { return jint(sh.find(zn.p(), cs)); });
            g.run("idx", "find(c8z,cs)", [&] { return jint(sh.find((c8p)zn.p(), cs)); });
            g.run("has", "contains(z,cs)", [&] { return jint(sh.contains(zn.p(), cs)); });
            g.run("has", "contains(c8z,cs)", [&] { return jint(sh.contains((c8p)zn.p(), cs)); });
        }
        if (!ci) {
            g.run("idx", "find(string)", [&] { return jint(sh.find(sn)); });
            g.run("has", "contains(string)", [&] { return jint(sh.contains(sn)); });
            if (nulfree(n)) g.run("idx", "find(z)", [&] { return jint(sh.find(zn.p())); });
            if (n.size() == 1) g.run("idx", "find(ch)", [&] { return jint(sh.find(n[0])); });
        }
    }
    finish(h, g);
}

static void op_findlast(const Bytes &hay, const Bytes &n, unsigned long long mx, bool ci) {
    if (!SH.take()) return;
    Out h; begin(h, "findlast"); h.c(',').k("h").s(jbytes(hay)).c(',').k("n").s(jbytes(n)).c(',').k("max").s(jnum(mx)).c(',').k("ci").i(ci);
    set_cur(SH.idx - 1, h.b + "}");
    Groups g; string sh = S(hay), sn = S(n); Z zn(n); Exact<char> en(n.data(), n.size());
    auto cs = CS(ci);
    g.run("idx", "find_last(max,string,cs)", [&] { return jint(sh.find_last(mx, sn, cs)); });
    g.run("idx", "find_last(max,p,n,cs)", [&] { return jint(sh.find_last(mx, en.p, n.size(), cs)); });
    g.run("idx", "find_last(max,c8,n,cs)", [&] { return jint(sh.find_last(mx, (c8p)en.p, n.size(), cs)); });
    if (n.size() == 1) g.run("idx", "find_last(max,ch,cs)", [&] { return jint(sh.find_last(mx, n[0], cs)); });
    if (nulfree(n)) {
        g.run("idx", "find_last(max,z,cs)", [&] { return jint(sh.find_last(mx, zn.p(), cs)); });
        g.run("idx", "find_last(max,c8z,cs)", [&] { return jint(sh.find_last(mx, (c8p)zn.p(), cs)); });
    }
    if (mx == ~0ull) {
        g.run("idx", "find_last(string,cs)", [&] { return jint(sh.find_last(sn, cs)); });
        g.run("idx", "find_last(p,n,cs)", [&] { return jint(sh.find_last(en.p, n.size(), cs)); });
        g.run("idx", "find_last(c8,n,cs)", [&] { return jint(sh.find_last((c8p)en.p, n.size(), cs)); });
        if (n.size() == 1) g.run("idx", "find_last(ch,cs)", [&] { return jint(sh.find_last(n[0], cs)); });
        if (nulfree(n)) {
            g.run("idx", "find_last(z,cs)", [&] { return jint(sh.find_last(zn.p(), cs)); });
            g.run("idx", "find_last(c8z,cs)", [&] { return jint(sh.find_last((c8p)zn.p(), cs)); });
        }
    }
    finish(h, g);
}

static void op_affix(const Bytes &s, const Bytes &p, bool ci) {
    if (!SH.take()) return;
    Out h; begin(h, "affix"); h.c(',').k("s").s(jbytes(s)).c(',').k("p").s(jbytes(p)).c(',').k("ci").i(ci);
    set_cur(SH.idx - 1, h.b + "}");
    Groups g; string ss = S(s), sp = S(p); Z zp(p); auto cs = CS(ci);
    g.run("starts", "starts_with(string,cs)", [&] { return jint(ss.starts_with(sp, cs)); });
    g.run("ends", "ends_with(string,cs)", [&] { return jint(ss.ends_with(sp, cs)); });
    if (nulfree(p)) {
        g.run("starts", "starts_with(z,cs)", [&] { return jint(ss.starts_with(zp.p(), cs)); });
        g.run("starts", "starts_with(c8z,cs)", [&] { return jint(ss.starts_with((c8p)zp.p(), cs)); });
        g.run("ends", "ends_with(z,cs)", [&] { return jint(ss.ends_with(zp.p(), cs)); });
        g.run("ends", "ends_with(c8z,cs)", [&] { return jint(ss.ends_with((c8p)zp.p(), cs)); });
    }
    if (p.empty()) {
        g.run("starts", "starts_with((char*)0)", [&] { return jint(ss.starts_with((const char *)nullptr, cs)); });
        g.run("ends", "ends_with((char*)0)", [&] { return jint(ss.ends_with((const char *)nullptr, cs)); });
    }
    finish(h, g);
}

// ------------------------------------------------------------------ C08 ---
static void op_substr(const Bytes &s, long long start, unsigned long long count) {
    if (!SH.take()) return;
    Out h; begin(h, "substr"); h.c(',').k("s").s(jbytes(s)).c(',').k("start").s(jsnum(start)).c(',').k("count").s(jnum(count));
    set_cur(SH.idx - 1, h.b + "}");
    Groups g; string ss = S(s);
    g.run("sub", "substr(start,count)", [&] { return jstr(ss.substr((ST_ssize_t)start, (size_t)count)); });
    if (count == ~0ull) g.run("sub", "substr(start)", [&] { return jstr(ss.substr((ST_ssize_t)start)); });
    finish(h, g);
}
static void op_leftright(const Bytes &s, unsigned long long k) {
    if (!SH.take()) return;
    Out h; begin(h, "leftright"); h.c(',').k("s").s(jbytes(s)).c(',').k("n").s(jnum(k));
    set_cur(SH.idx - 1, h.b + "}");
    Groups g; string ss = S(s);
    g.run("left", "left(n)", [&] { return jstr(ss.left((size_t)k)); });
    g.run("right", "right(n)", [&] { return jstr(ss.right((size_t)k)); });
    finish(h, g);
}
static void op_trim(const Bytes &s, const Bytes &cset) {
    if (!SH.take()) return;
    Out h; begin(h, "trim"); h.c(',').k("s").s(jbytes(s)).c(',').k("cs").s(jbytes(cset));
    set_cur(SH.idx - 1, h.b + "}");
    Groups g; string ss = S(s); Z zc(cset);
    g.run("tl", "trim_left(cs)", [&] { return jstr(ss.trim_left(zc.p())); });
    g.run("tr", "trim_right(cs)", [&] { return jstr(ss.trim_right(zc.p())); });
    g.run("tb", "trim(cs)", [&] { return jstr(ss.trim(zc.p())); });
    if (cset == " \t\r\n") {
        g.run("tl", "trim_left()", [&] { return jstr(ss.trim_left()); });
        g.run("tr", "trim_right()", [&] { return jstr(ss.trim_right()); });
        g.run("tb", "trim()", [&] { return jstr(ss.trim()); });
    }
    finish(h, g);
}
static void op_bafl(const Bytes &s, const Bytes &sep, bool ci) {
    if (!SH.take()) return;
    Out h; begin(h, "bafl"); h.c(',').k("s").s(jbytes(s)).c(',').k("sep").s(jbytes(sep)).c(',').k("ci").i(ci);
    set_cur(SH.idx - 1, h.b + "}");
    Groups g; string ss = S(s), sp = S(sep); Z zs(sep); auto cs = CS(ci);
    g.run("bf", "before_first(string,cs)", [&] { return jstr(ss.before_first(sp, cs)); });
    g.run("af", "after_first(string,cs)", [&] { return jstr(ss.after_first(sp, cs)); });
    g.run("bl", "before_last(string,cs)", [&] { return jstr(ss.before_last(sp, cs)); });
    g.run("al", "after_last(string,cs)", [&] { return jstr(ss.after_last(sp, cs)); });
    if (sep.size() == 1) {
        g.run("bf", "before_first(ch,cs)", [&] { return jstr(ss.before_first(sep[0], cs)); });
        g.run("af", "after_first(ch,cs)", [&] { return jstr(ss.after_first(sep[0], cs)); });
        g.run("bl", "before_last(ch,cs)", [&] { return jstr(ss.before_last(sep[0], cs)); });
        g.run("al", "after_last(ch,cs)", [&] { return jstr(ss.after_last(sep[0], cs)); });
    }
    if (nulfree(sep)) {
        g.run("bf", "before_first(z,cs)", [&] { return jstr(ss.before_first(zs.p(), cs)); });
        g.run("af", "after_first(z,cs)", [&] { return jstr(ss.after_first(zs.p(), cs)); });
        g.run("bl", "before_last(z,cs)", [&] { return jstr(ss.before_last(zs.p(), cs)); });
        g.run("al", "after_last(z,cs)", [&] { return jstr(ss.after_last(zs.p(), cs)); });
        g.run("bf", "before_first(c8z,cs)", [&] { return jstr(ss.before_first((c8p)zs.p(), cs)); });
        g.run("af", "after_first(c8z,cs)", [&] { return jstr(ss.after_first((c8p)zs.p(), cs)); });
        g.run("bl", "before_last(c8z,cs)", [&] { return jstr(ss.before_last((c8p)zs.p(), cs)); });
        g.run("al", "after_last(c8z,cs)", [&] { return jstr(ss.after_last((c8p)zs.p(), cs)); });
    }
    finish(h, g);
}

// ------------------------------------------------------------------ C09 ---
static void op_split(const Bytes &s, const Bytes &sep, unsigned long long mx, bool ci) {
    if (!SH.take()) return;
    Out h; begin(h, "split"); h.c(',').k("s").s(jbytes(s)).c(',').k("sep").s(jbytes(sep)).c(',').k("max").s(jnum(mx)).c(',').k("ci").i(ci);
    set_cur(SH.idx - 1, h.b + "}");
    Groups g; string ss = S(s), sp = S(sep); Z zs(sep); auto cs = CS(ci);
    g.run("pieces", "split(string,max,cs)", [&] { return jlist(ss.split(sp, (size_t)mx, cs)); });
    if (sep.size() == 1 && sep[0] > 0 && (unsigned char)sep[0] < 0x80)
        g.run("pieces", "split(ch,max,cs)", [&] { return jlist(ss.split(sep[0], (size_t)mx, cs)); });
    if (nulfree(sep)) {
        g.run("pieces", "split(z,max,cs)", [&] { return jlist(ss.split(zs.p(), (size_t)mx, cs)); });
        g.run("pieces", "split(c8z,max,cs)", [&] { return jlist(ss.split((c8p)zs.p(), (size_t)mx, cs)); });
    }
    if (mx == ~0ull && !ci) {
        g.run("pieces", "split(string)", [&] { return jlist(ss.split(sp)); });
        if (nulfree(sep)) g.run("pieces", "split(z)", [&] { return jlist(ss.split(zs.p())); });
        if (sep.size() == 1 && sep[0] > 0 && (unsigned char)sep[0] < 0x80) g.run("pieces", "split(ch)", [&] { return jlist(ss.split(sep[0])); });
    }
    finish(h, g);
}
static void op_tokenize(const Bytes &s, const Bytes &delims) {
    if (!SH.take()) return;
    Out h; begin(h, "tokenize"); h.c(',').k("s").s(jbytes(s)).c(',').k("ds").s(jbytes(delims));
    set_cur(SH.idx - 1, h.b + "}");
    Groups g; string ss = S(s); Z zd(delims);
    g.run("tokens", "tokenize(ds)", [&] { return jlist(ss.tokenize(zd.p())); });
    if (delims == " \t\r\n") g.run("tokens", "tokenize()", [&] { return jlist(ss.tokenize()); });
    finish(h, g);
}
static void op_replace(const Bytes &s, const Bytes &from, const Bytes &to, bool ci) {
    if (!SH.take()) return;
    Out h; begin(h, "replace"); h.c(',').k("s").s(jbytes(s)).c(',').k("from").s(jbytes(from)).c(',').k("to").s(jbytes(to)).c(',').k("ci").i(ci);
    set_cur(SH.idx - 1, h.b + "}");
    Groups g; string ss = S(s), sf = S(from), st = S(to); Z zf(from), zt(to); auto cs = CS(ci);
    g.run("rep", "replace(string,string,cs)", [&] { return jstr(ss.replace(sf, st, cs)); });
    if (nulfree(from) && nulfree(to)) {
        g.run("rep", "replace(z,z,cs,assume)", [&] { return jstr(ss.replace(zf.p(), zt.p(), cs, ST::assume_valid)); });
        g.run("rep", "replace(c8z,c8z,cs,assume)", [&] { return jstr(ss.replace((c8p)zf.p(), (c8p)zt.p(), cs, ST::assume_valid)); });
        if (ascii(from) && ascii(to)) g.run("rep", "replace(z,z,cs)", [&] { return jstr(ss.replace(zf.p(), zt.p(), cs)); });
    }
    if (nulfree(to)) {
        g.run("rep", "replace(string,z,cs,assume)", [&] { return jstr(ss.replace(sf, zt.p(), cs, ST::assume_valid)); });
        g.run("rep", "replace(string,c8z,cs,assume)", [&] { return jstr(ss.replace(sf, (c8p)zt.p(), cs, ST::assume_valid)); });
    }
    if (nulfree(from)) {
        g.run("rep", "replace(z,string,cs,assume)", [&] { return jstr(ss.replace(zf.p(), st, cs, ST::assume_valid)); });
        g.run("rep", "replace(c8z,string,cs,assume)", [&] { return jstr(ss.replace((c8p)zf.p(), st, cs, ST::assume_valid)); });
    }
    if (!ci) g.run("rep", "replace(string,string)", [&] { return jstr(ss.replace(sf, st)); });
    finish(h, g);
}

// ------------------------------------------------------------- generators ---
static std::vector<Bytes> all_strings(const std::vector<long long> &alpha, int maxlen) {
    std::vector<Bytes> r; Bytes cur;
    std::function<void(int)> rec = [&](int len) {
        if ((int)cur.size() == len) { r.push_back(cur); return; }
        for (long long a : alpha) { cur.push_back((char)a); rec(len); cur.pop_back(); }
    };
    for (int len = 0; len <= maxlen; ++len) rec(len);
    return r;
}
static std::vector<long long> parse_list(const char *s) {
    std::vector<long long> v; if (!s) return v;
    while (*s) { char *e; long long x = strtoll(s, &e, 0); if (e == s) break; v.push_back(x); s = e; if (*s == ',') ++s; }
    return v;
}
static const unsigned long long BIG[] = {1ull << 31, (1ull << 32) - 1, 1ull << 32, 1ull << 63, ~0ull - 1, ~0ull};

static Bytes rand_bytes(Rng &rng, const std::vector<long long> &alpha, int maxlen) {
    Bytes b; int n = (int)rng.below(maxlen + 1);
    for (int i = 0; i < n; ++i) b.push_back((char)alpha[rng.below(alpha.size())]);
    return b;
}
// subject with planted occurrences of needle
static Bytes planted(Rng &rng, const std::vector<long long> &alpha, const Bytes &needle, int maxlen) {
    Bytes b;
    while ((int)b.size() < maxlen) {
        if (rng.below(3) == 0 && !needle.empty()) b += needle.substr(0, 1 + rng.below(needle.size()));
        else if (rng.below(3) == 0) b += needle;
        else b.push_back((char)alpha[rng.below(alpha.size())]);
        if (rng.below(8) == 0) break;
    }
    return b;
}
static Bytes size_class(size_t n, unsigned seed) { Bytes b; for (size_t i = 0; i < n; ++i) b.push_back((char)("abc de\0fg"[(i * 7 + seed) % 9])); return b; }

// needles longer than any scratch buffer a search could use (63..200 bytes, not periodic), planted twice in the
// haystack: once with the case of every letter flipped (a match only in case-insensitive mode), once exactly
static std::vector<std::pair<Bytes, Bytes>> long_needles() {
    std::vector<std::pair<Bytes, Bytes>> r;
    for (size_t n : {31u, 32u, 33u, 63u, 64u, 65u, 66u, 100u, 127u, 128u, 129u, 200u}) {
        Bytes nd; for (size_t i = 0; i < n; ++i) nd += (char)("abcdefghijklmnopqrstuvwxyz0123456789-_"[(i * i + i / 7) % 38]);
        Bytes fl = nd; for (char &c : fl) if ((c >= 'a' && c <= 'z')) c ^= 0x20;
        Bytes near = nd; near[n - 1] = '#';            // differs in the last byte only
        r.push_back({Bytes("..") + near + "|" + fl + "::" + nd + "!", nd});
        r.push_back({fl.substr(1) + fl, nd});
    }
    return r;
}

int main(int argc, char **argv) {
    install_handlers();
    _ST_PRIVATE::verif_assert_hook() = assert_hook;
    std::string gen = "c06"; std::vector<long long> alpha = {0, 65, 97, 98}; int maxlen = 3, nlen = 2; long long count = 1000;
    uint64_t seed = (uint64_t)env_ll("VERIF_SEED", 1); std::string file;
    for (int a = 1; a < argc; ++a) {
        std::string k = argv[a]; const char *v = a + 1 < argc ? argv[a + 1] : "";
        if (k == "--gen") { gen = v; ++a; } else if (k == "--alpha") { alpha = parse_list(v); ++a; }
        else if (k == "--maxlen") { maxlen = atoi(v); ++a; } else if (k == "--nlen") { nlen = atoi(v); ++a; }
        else if (k == "--count") { count = atoll(v); ++a; } else if (k == "--seed") { seed = strtoull(v, 0, 0); ++a; }
        else if (k == "--shard") { sscanf(v, "%lld/%lld", &SH.shard, &SH.nshards); ++a; }
        else if (k == "--from") { SH.from = atoll(v); ++a; } else if (k == "--file") { file = v; ++a; }
        else { fprintf(stderr, "unknown arg %s\n", k.c_str()); return 2; }
    }
    Out &o = out();
    o.s("{").k("e").q("Platform").c(',').k("i").i(-1).c(',').k("char_signed").i(CHAR_MIN < 0).c(',').k("sso").i(ST_MAX_SSO_LENGTH).s("}\n");
    Rng rng(seed);
    auto strs = all_strings(alpha, maxlen);
    auto needles = all_strings(alpha, nlen);

    if (gen == "c06") {
        for (auto &a : strs) for (auto &b : strs) op_cmp(a, b);
        for (auto &a : strs) for (auto &b : strs) {
            if (a.size() + b.size() > (size_t)maxlen + 1) continue;
            for (unsigned long long n = 0; n <= (unsigned long long)maxlen + 1; ++n) op_cmpn(a, b, n);
            for (unsigned long long n : BIG) op_cmpn(a, b, n);
        }
        op_matrix(strs.size() > 60 ? std::vector<Bytes>(strs.begin(), strs.begin() + 60) : strs);
        for (auto &a : strs) op_case(a);
        for (int c = 0; c < 256; ++c) { Bytes b(1, (char)c); op_case(b); op_case(Bytes("x") + b + "Y"); }
        // any byte directly in front of a letter, at every alignment within an 8-byte block, against the other case
        for (int c : {0x00, 0x40, 0x5A, 0x5B, 0x60, 0x7F, 0x80, 0xBF, 0xC0, 0xDA, 0xDB, 0xE0, 0xFF}) for (char letter : {'Z', 'A', 'm'}) for (int k = 0; k < 8; ++k) {
            Bytes a = Bytes("abcdefgh").substr(0, k) + (char)c + letter + "ijklmnopqrs"; Bytes b = a; b[k + 1] ^= 0x20;
            op_cmp(a, b);
        }
        // huge claimed sizes, nothing beyond min(lsize, rsize) touched
        static const unsigned long long SZ[] = {0, 1, 2, (1ull << 31) - 1, 1ull << 31, (1ull << 32) - 1, 1ull << 32, (1ull << 32) + 1, 1ull << 63, ~0ull};
        for (const char *common : {"", "a", "ab"}) for (const char *ta : {"", "a", "b", "\xFF"}) for (const char *tb : {"", "a", "b", "\x80"})
            for (unsigned long long ls : SZ) for (unsigned long long rs : SZ) {
                op_cmpsized(common, ta, tb, ls, rs, false, 0);
                for (unsigned long long mx : {0ull, 1ull, 2ull, 3ull, 1ull << 31, ~0ull}) op_cmpsized(common, ta, tb, ls, rs, true, mx);
            }
    } else if (gen == "c06rand") {
        std::vector<long long> full; for (int c = 0; c < 256; ++c) full.push_back(c);
        for (long long k = 0; k < count; ++k) {
            Bytes a = rand_bytes(rng, rng.below(2) ? alpha : full, 24), b = rng.below(3) ? rand_bytes(rng, rng.below(2) ? alpha : full, 24) : a;
            if (rng.below(3) == 0 && !b.empty()) b[rng.below(b.size())] ^= 0x20;
            if (rng.below(4) == 0) b = a.substr(0, rng.below(a.size() + 1));
            op_cmp(a, b); op_cmpn(a, b, rng.below(26)); op_case(a);
        }
    } else if (gen == "cmpw") {
        gen_cmpw();
    } else if (gen == "x01") {
        size_t L = ST_MAX_SSO_LENGTH;
        std::vector<Bytes> subj = strs;
        for (size_t n : {L - 1, L, L + 1, (size_t)40}) subj.push_back(size_class(n, 3));
        for (auto &s : subj) for (unsigned long long i : std::vector<unsigned long long>{0, 1, s.size() ? s.size() - 1 : 0, s.size(), s.size() + 1, 1ull << 31, 1ull << 32, ~0ull}) op_access(s, i);
        for (unsigned long long n : std::vector<unsigned long long>{0, 1, 2, L - 1, L, L + 1, 40, 300}) for (int ch : {0, (int)'x', 0x80, 0xFF}) op_fill(n, ch);
        for (const char *t : {"", "true", "TRUE", "tRuE", "false", "False", "falsey", "truex", " true", "true ", "0", "1", "-1", "00", "0x0", "0x10", "08", "yes", "no", "2147483648", "4294967296", "t", "f", "1e0", " 7", "\t0"}) op_bool(t);
        op_bool(Bytes("true\0x", 6)); op_bool(Bytes("\0true", 5)); op_bool(Bytes("1\0", 2));
        for (long long k = 0; k < count; ++k) { Bytes s = rand_bytes(rng, {116, 114, 117, 101, 102, 97, 108, 115, 84, 82, 48, 49, 32, 120, 45}, 6); op_bool(s); op_access(s, rng.below(8)); }
    } else if (gen == "x02") {
        size_t L = ST_MAX_SSO_LENGTH;
        std::vector<Bytes> subj = strs;
        for (size_t n : {L - 1, L, L + 1, (size_t)40, (size_t)300}) subj.push_back(size_class(n, 5));
        for (int c = 0; c < 256; ++c) { subj.push_back(Bytes(1, (char)c)); subj.push_back(Bytes("k") + (char)c + "Z"); }
        for (int c = 0; c < 256; ++c) for (int k : {0, 3, 6, 7}) subj.push_back(Bytes("abcdefgh").substr(0, k) + (char)c + "Zq" + Bytes("ijklmnopq").substr(0, 9 - k));
        for (auto &s : subj) op_hashv(s);
        for (auto &s : subj) {
            if (s.size() > 3 && s.size() < 40 && s.size() != L) continue;
            op_view(s, 0, 0, true);
            for (size_t st = 0; st <= s.size(); ++st) { op_view(s, st, 0, true); for (size_t n = 0; n <= s.size() - st; ++n) if (n < 3 || n + 2 > s.size() - st) op_view(s, st, n, false); }
        }
        for (auto &s : subj) if (nulfree(s) && (s.size() <= 3 || s.size() >= L - 1) && s.size() <= 40) for (const char *sub : {"", "(null)", "x"}) op_cstr(s, sub);
        gen_literals();
        for (long long k = 0; k < count; ++k) { std::vector<long long> full; for (int c = 0; c < 256; ++c) full.push_back(c); op_hashv(rand_bytes(rng, full, 60)); }
    } else if (gen == "c07") {
        for (auto &hs : strs) for (auto &n : needles) for (int ci = 0; ci < 2; ++ci) {
            for (unsigned long long st = 0; st <= hs.size() + 1; ++st) op_find(hs, n, st, ci);
            op_find(hs, n, 1ull << 31, ci); op_find(hs, n, ~0ull, ci);
            for (unsigned long long mx = 0; mx <= hs.size() + 1; ++mx) op_findlast(hs, n, mx, ci);
            op_findlast(hs, n, 1ull << 31, ci); op_findlast(hs, n, ~0ull, ci);
            op_affix(hs, n, ci);
        }
        // every byte value as a single-unit needle against its bit-5 and bit-7 twins: the case-insensitive forms
        // must fold ASCII letters only ('@' is not '`', '[' is not '{', NUL is not ' '), whatever the needle form
        for (int c = 0; c < 256; ++c) {
            // ... and as the SECOND byte of a two-byte needle (the comparison loop behind the first-byte scan)
            { Bytes n2{'x', (char)c}; Bytes hs{'x', (char)(c ^ 0x20), '-', 'X', (char)c, 'x', (char)(c ^ 0x80)};
              for (int ci = 0; ci < 2; ++ci) { op_find(hs, n2, 0, ci); op_findlast(hs, n2, ~0ull, ci); op_bafl(hs, n2, ci); op_split(hs, n2, ~0ull, ci); op_replace(hs, n2, "#", ci); } }
            Bytes n(1, (char)c);
            for (const Bytes &hs : {Bytes(1, (char)(c ^ 0x20)), Bytes{(char)(c ^ 0x20), (char)c}, Bytes{(char)(c ^ 0x80), (char)(c ^ 0x20), 'x', (char)c, (char)(c ^ 0x20)}})
                for (int ci = 0; ci < 2; ++ci) { op_find(hs, n, 0, ci); op_findlast(hs, n, ~0ull, ci); op_affix(hs, n, ci); }
        }
        // every byte value inside a needle of 8+ bytes (word-at-a-time comparisons), against its bit-5 twin in the text
        for (int c = 0; c < 256; ++c) for (int pos : {0, 3, 7, 9}) {
            Bytes n = "abcdefghijkl"; n[pos] = (char)c; Bytes tw = n; tw[pos] = (char)(c ^ 0x20);
            Bytes hs = Bytes("xy") + tw + "--" + tw.substr(0, 11) + "!";
            for (int ci = 0; ci < 2; ++ci) { op_find(hs, n, 0, ci); if (pos == 7) { op_findlast(hs, n, ~0ull, ci); op_affix(tw, n, ci); } }
        }
        for (auto &ln : long_needles()) for (int ci = 0; ci < 2; ++ci) {
            op_find(ln.first, ln.second, 0, ci); op_findlast(ln.first, ln.second, ~0ull, ci); op_affix(ln.first, ln.second, ci);
        }
    } else if (gen == "c07rand") {
        for (long long k = 0; k < count; ++k) {
            Bytes n = rand_bytes(rng, alpha, 4); Bytes hs = planted(rng, alpha, n, 40); bool ci = rng.below(2);
            op_find(hs, n, rng.below(hs.size() + 2), ci); op_findlast(hs, n, rng.below(3) ? rng.below(hs.size() + 2) : ~0ull, ci);
            op_affix(hs, rng.below(2) ? hs.substr(0, rng.below(hs.size() + 1)) : hs.substr(rng.below(hs.size() + 1)), ci); op_affix(hs, n, ci);
        }
    } else if (gen == "c08") {
        size_t L = ST_MAX_SSO_LENGTH;
        std::vector<Bytes> subj = strs;
        for (size_t n : {L - 1, L, L + 1, (size_t)40}) subj.push_back(size_class(n, 3));
        for (auto &s : subj) {
            long long n = (long long)s.size();
            std::vector<long long> starts = {LLONG_MIN, LLONG_MIN + 1, -n - 2, -n - 1, -n, -n + 1, -1, 0, 1, 2, n - 1, n, n + 1, n + 2, LLONG_MAX - 1, LLONG_MAX, 1ll << 31, -(1ll << 31), 1ll << 32};
            for (long long st : starts) {
                std::vector<unsigned long long> counts = {0, 1, 2, (unsigned long long)n, (unsigned long long)n + 1, 1ull << 31, 1ull << 63, ~0ull, ~0ull - 1, ~0ull - 2};
                if (st >= 0 && st < (1ll << 40)) for (long long d = -2; d <= 2; ++d) { counts.push_back(~0ull - (unsigned long long)st + (unsigned long long)d); counts.push_back((unsigned long long)(n - st + d)); }
                for (unsigned long long c : counts) op_substr(s, st, c);
            }
            for (unsigned long long k = 0; k <= 2 * (unsigned long long)n + 2; ++k) op_leftright(s, k);
            for (unsigned long long k : BIG) op_leftright(s, k);
            for (const char *cs : {" ", " \t\r\n", "ab", "a", "", "\xFF" "b"}) op_trim(s, cs);
        }
        for (auto &s : strs) for (auto &sep : needles) for (int ci = 0; ci < 2; ++ci) op_bafl(s, sep, ci);
        // two-byte separators whose second byte has a bit-5 / bit-7 twin in the text
        for (int c = 0; c < 256; ++c) { Bytes n2{'x', (char)c}; Bytes hs{'x', (char)(c ^ 0x20), '-', 'X', (char)c, 'x', (char)(c ^ 0x80)};
            for (int ci = 0; ci < 2; ++ci) op_bafl(hs, n2, ci); }
        for (int c = 0; c < 256; ++c) { Bytes n1(1, (char)c); Bytes hs{'x', (char)(c ^ 0x20), '-', (char)c, 'y', (char)(c ^ 0x80), (char)c, 'z'};
            for (int ci = 0; ci < 2; ++ci) op_bafl(hs, n1, ci); }
        for (auto &s : subj) if (s.size() > (size_t)maxlen) for (const char *sep : {"c", "c ", " d", "zz", ""}) for (int ci = 0; ci < 2; ++ci) op_bafl(s, sep, ci);
    } else if (gen == "c08rand") {
        std::vector<long long> ws = {32, 9, 10, 13, 97, 98, 0, 255};
        for (long long k = 0; k < count; ++k) {
            Bytes s = rand_bytes(rng, ws, 30);
            long long st = (long long)rng.below(2 * s.size() + 3) - (long long)s.size() - 1;
            op_substr(s, st, rng.below(4) ? rng.below(s.size() + 3) : ~0ull - rng.below(40));
            op_leftright(s, rng.below(2 * s.size() + 3));
            op_trim(s, rng.below(2) ? " \t\r\n" : "ab ");
            Bytes sep = rand_bytes(rng, ws, 3);
            op_bafl(planted(rng, ws, sep, 30), sep, rng.below(2));
        }
    } else if (gen == "c09") {
        auto tos = all_strings(alpha, std::min(nlen, 2));
        for (auto &s : strs) for (auto &sep : needles) for (int ci = 0; ci < 2; ++ci) {
            for (unsigned long long mx : {0ull, 1ull, 2ull, (unsigned long long)s.size(), ~0ull}) op_split(s, sep, mx, ci);
            for (auto &to : tos) op_replace(s, sep, to, ci);
        }
        // explicit limits that are huge but not the "no limit" value: a bound on the number of cuts, never a size to allocate
        for (const char *t : {"", "a", "aAaa", "a,b,,c"}) for (const char *sp : {"a", ",", "x"}) for (int ci = 0; ci < 2; ++ci)
            for (unsigned long long mx : {~0ull - 1, 1ull << 63, 1ull << 62, 1ull << 60, 1ull << 58, 1ull << 40, 1ull << 32, (1ull << 32) - 1, 1ull << 31, 3ull}) op_split(t, sp, mx, ci);
        for (auto &s : strs) for (auto &d : needles) if (nulfree(d)) op_tokenize(s, d);
        for (int c = 0; c < 256; ++c) { Bytes n2{'x', (char)c}; Bytes hs{'x', (char)(c ^ 0x20), '-', 'X', (char)c, 'x', (char)(c ^ 0x80)};
            for (int ci = 0; ci < 2; ++ci) { op_split(hs, n2, ~0ull, ci); op_replace(hs, n2, "#", ci); } }
        for (auto &ln : long_needles()) for (int ci = 0; ci < 2; ++ci) { op_split(ln.first, ln.second, ~0ull, ci); op_replace(ln.first, ln.second, "<>", ci); op_bafl(ln.first, ln.second, ci); }
        // growth and shrinkage across the small-string limit
        size_t L = ST_MAX_SSO_LENGTH;
        for (size_t n = L - 3; n <= L + 3; ++n) for (const char *from : {"a", "ab", "b c"}) for (const char *to : {"", "x", "xy", "xyz", "abab"})
            for (int ci = 0; ci < 2; ++ci) { Bytes s; while (s.size() < n) s += "ab c"; s.resize(n); op_replace(s, from, to, ci); op_split(s, from, ~0ull, ci); }
        for (auto &s : strs) op_tokenize(s, " \t\r\n");
        // every byte value next to delimiters / separators it shares its low bits with: only the exact bytes cut
        for (int c = 1; c < 256; ++c) {
            Bytes s{'a', (char)c, 'b', (char)(c ^ 0x80), 'c', (char)(c ^ 0x20), 'd'};
            for (const char *ds : {" ", ",", "/", ";", " ,;/\t", "\t\r\n "}) op_tokenize(s, ds);
            op_tokenize(s, Bytes(1, (char)c));
            for (int ci = 0; ci < 2; ++ci) { op_split(s, Bytes(1, (char)c), ~0ull, ci); op_replace(s, Bytes(1, (char)c), "#", ci); }
        }
    } else if (gen == "c09rand") {
        std::vector<long long> al = {97, 65, 98, 0, 32, 0xC3, 0xA9};
        for (long long k = 0; k < count; ++k) {
            Bytes sep = rand_bytes(rng, al, 3), to = rand_bytes(rng, al, 4); Bytes s = planted(rng, al, sep, 40); bool ci = rng.below(2);
            op_split(s, sep, rng.below(3) ? rng.below(6) : ~0ull, ci);
            op_replace(s, sep, to, ci);
            Bytes d = rand_bytes(rng, {97, 32, 9}, 2); op_tokenize(s, d);
        }
    } else if (gen == "file") {
        // replay: one op per line: "<op> <hex> <hex> ..." with numbers as decimal; see lib/p_strops.py
        FILE *f = fopen(file.c_str(), "r"); if (!f) { perror(file.c_str()); return 2; }
        char line[65536];
        auto unhex = [](const char *s) { Bytes b; if (!strcmp(s, "-")) return b; for (; s[0] && s[1]; s += 2) { unsigned v; sscanf(s, "%2x", &v); b.push_back((char)v); } return b; };
        while (fgets(line, sizeof line, f)) {
            char op[32], a1[20000], a2[20000], a3[20000]; unsigned long long n1 = 0, n2 = 0; long long s1 = 0; int ci = 0, hm = 0;
            if (sscanf(line, "%31s", op) != 1) continue;
            std::string o = op;
            if (o == "cmp" && sscanf(line, "%*s %s %s", a1, a2) == 2) op_cmp(unhex(a1), unhex(a2));
            else if (o == "cmpn" && sscanf(line, "%*s %s %s %llu", a1, a2, &n1) == 3) op_cmpn(unhex(a1), unhex(a2), n1);
            else if (o == "case" && sscanf(line, "%*s %s", a1) == 1) op_case(unhex(a1));
            else if (o == "cmpsized" && sscanf(line, "%*s %s %llu %s %llu %d %llu", a1, &n1, a2, &n2, &hm, (unsigned long long *)&s1) == 6) {
                Bytes pa = unhex(a1), pb = unhex(a2); SH.take();
                Out h; begin(h, "cmpsized"); h.c(',').k("pa").s(jbytes(pa)).c(',').k("ls").s(jnum(n1)).c(',').k("pb").s(jbytes(pb)).c(',').k("rs").s(jnum(n2)).c(',').k("hasmax").i(hm).c(',').k("mx").s(jnum((unsigned long long)s1));
                Groups g; sized_forms<char>(g, "char_buffer", pa, n1, pb, n2, hm, (unsigned long long)s1); sized_forms<wchar_t>(g, "wchar_buffer", pa, n1, pb, n2, hm, (unsigned long long)s1);
                sized_forms<char16_t>(g, "utf16_buffer", pa, n1, pb, n2, hm, (unsigned long long)s1); sized_forms<char32_t>(g, "utf32_buffer", pa, n1, pb, n2, hm, (unsigned long long)s1);
                finish(h, g);
            }
            else if (o == "find" && sscanf(line, "%*s %s %s %llu %d", a1, a2, &n1, &ci) == 4) op_find(unhex(a1), unhex(a2), n1, ci);
            else if (o == "findlast" && sscanf(line, "%*s %s %s %llu %d", a1, a2, &n1, &ci) == 4) op_findlast(unhex(a1), unhex(a2), n1, ci);
            else if (o == "affix" && sscanf(line, "%*s %s %s %d", a1, a2, &ci) == 3) op_affix(unhex(a1), unhex(a2), ci);
            else if (o == "substr" && sscanf(line, "%*s %s %lld %llu", a1, &s1, &n1) == 3) op_substr(unhex(a1), s1, n1);
            else if (o == "leftright" && sscanf(line, "%*s %s %llu", a1, &n1) == 2) op_leftright(unhex(a1), n1);
            else if (o == "trim" && sscanf(line, "%*s %s %s", a1, a2) == 2) op_trim(unhex(a1), unhex(a2));
            else if (o == "bafl" && sscanf(line, "%*s %s %s %d", a1, a2, &ci) == 3) op_bafl(unhex(a1), unhex(a2), ci);
            else if (o == "split" && sscanf(line, "%*s %s %s %llu %d", a1, a2, &n1, &ci) == 4) op_split(unhex(a1), unhex(a2), n1, ci);
            else if (o == "tokenize" && sscanf(line, "%*s %s %s", a1, a2) == 2) op_tokenize(unhex(a1), unhex(a2));
            else if (o == "replace" && sscanf(line, "%*s %s %s %s %d", a1, a2, a3, &ci) == 4) op_replace(unhex(a1), unhex(a2), unhex(a3), ci);
        }
        fclose(f);
    } else { fprintf(stderr, "unknown generator %s\n", gen.c_str()); return 2; }
    o.flush();
    fprintf(stderr, "exec_strops: inputs=%lld events=%lld\n", SH.idx, g_events);
    return 0;
}
