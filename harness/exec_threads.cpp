// Executor for C20 (concurrent use needs no locking).  Built with ThreadSanitizer, hooks OFF.
// K threads run the same catalogue of operations at the same time - const members on SHARED
// ST::string / buffer objects, and conversions, searches, formatting, codecs and stream
// operations on their OWN objects - with no synchronisation between them except the start
// barrier.  Every thread records the result bytes of every operation; afterwards the main
// thread runs the catalogue alone ("solo").  The trace specification (spec/TraceThreads.tla)
// requires every concurrent result to equal the solo result; a ThreadSanitizer report ends the
// process and is recorded as an Abnormal event, which no specification action explains.
// The solo pass runs AFTER the concurrent phase so that first-use initialisation (a lazily
// built table, a cached value) happens under concurrency, not before it.
#include "common/verif.h"

#include <string_theory/string>
#include <string_theory/string_stream>
#include <string_theory/format>
#include <string_theory/codecs>
#include <string_theory/iostream>
#include <string_theory/stdio>
#include <atomic>
#include <thread>
#include <sstream>
#include <functional>
#include <cfloat>

using namespace vf;

struct Shared {
    ST::string s_short, s_long, s_utf8, s_num, s_b64, s_hex, s_mixed, s_100, s_100b, s_big;
    ST::char_buffer cb; ST::utf16_buffer u16; ST::utf32_buffer u32; ST::wchar_buffer wb;
    Shared()
        : s_short(ST_LITERAL("aB,c d")), s_long(ST_LITERAL("  The quick brown fox, jumps over; the lazy dog  \t")),
          s_utf8(ST::string::from_utf8("na\xC3\xAFve \xE2\x82\xAC 100 \xF0\x9F\x98\x80 z\xC3\xBCrich")),
          s_num(ST_LITERAL("-12345678901")), s_b64(ST_LITERAL("SGVsbG8sIHdvcmxkIQ==")), s_hex(ST_LITERAL("00ff10Ab7f80")),
          s_mixed(ST_LITERAL("key=value;Key=Other;KEY=third"))
    {
        // longer shared texts: block-wise fast paths, scratch state and sharing schemes only engage above some size
        { std::string a(70, 'a'); a += "\xC3\xA9 tail \xE2\x82\xAC"; a += std::string(30, 'z'); s_100 = ST::string::from_utf8(a.data(), a.size()); }
        { std::string b(20, 'b'); b += "\xF0\x9F\x98\x80"; b += std::string(90, 'y'); s_100b = ST::string::from_utf8(b.data(), b.size()); }
        { std::string c; for (int i = 0; i < 2500; ++i) c += (char)('A' + i % 26); s_big = ST::string::from_utf8(c.data(), c.size()); }
        cb = s_long.to_utf8(); u16 = s_utf8.to_utf16(); u32 = s_utf8.to_utf32(); wb = s_utf8.to_wchar();
    }
};

static std::string bytes_of(const ST::string &s) { return std::string(s.c_str(), s.size()); }
template <class T> static std::string bytes_of(const ST::buffer<T> &b) { return std::string((const char *)b.data(), b.size() * sizeof(T)); }
static std::string num(long long v) { char t[32]; snprintf(t, sizeof t, "%lld", v); return t; }
static std::string join(const std::vector<ST::string> &v) { std::string r; for (const auto &x : v) { r += bytes_of(x); r += '\x1f'; } return r; }

typedef std::function<std::string(const Shared &, unsigned)> Op;
struct NamedOp { const char *name; Op f; };

static std::vector<NamedOp> catalogue() {
    std::vector<NamedOp> c;
#define OP(name, ...) c.push_back({name, [](const Shared &S, unsigned k) -> std::string { (void)S; (void)k; __VA_ARGS__ }})
    // ---- const members on shared strings ----
    OP("find", return num(S.s_long.find("fox") * 1000 + S.s_long.find_last('o') + S.s_mixed.find("key", ST::case_insensitive)););
    OP("compare", return num(S.s_short.compare(S.s_long) + 10 * S.s_mixed.compare_i("KEY=VALUE;key=other;key=THIRD") + 100 * (S.s_utf8 == S.s_utf8)););
    OP("hash", return num((long long)(ST::hash()(S.s_long) ^ ST::hash_i()(S.s_mixed) ^ std::hash<ST::string>()(S.s_utf8))););
    OP("substr", return bytes_of(S.s_long.substr(4, 11)) + "|" + bytes_of(S.s_utf8.left(7)) + "|" + bytes_of(S.s_long.right(9)););
    OP("trim", return bytes_of(S.s_long.trim()) + "|" + bytes_of(S.s_long.trim_left()) + "|" + bytes_of(S.s_long.trim_right(" \t")););
    OP("case", return bytes_of(S.s_long.to_upper()) + "|" + bytes_of(S.s_utf8.to_lower()););
    OP("replace", return bytes_of(S.s_long.replace("the", "THE")) + "|" + bytes_of(S.s_mixed.replace("key", "k", ST::case_insensitive)););
    OP("split", return join(S.s_mixed.split(';')) + join(S.s_long.tokenize(" ,;\t")) + join(S.s_mixed.split("=", 2)););
    OP("beforeafter", return bytes_of(S.s_mixed.before_first('=')) + "|" + bytes_of(S.s_mixed.after_last(";")) + "|" + bytes_of(S.s_mixed.before_last("=")) + "|" + bytes_of(S.s_mixed.after_first('=')););
    OP("predicates", return num(S.s_long.starts_with("  The") + 2 * S.s_long.ends_with("\t") + 4 * S.s_mixed.contains("OTHER", ST::case_insensitive) + 8 * S.s_short.empty()););
    OP("to_utf16", return bytes_of(S.s_utf8.to_utf16()););
    OP("to_utf32", return bytes_of(S.s_utf8.to_utf32()););
    OP("to_wchar", return bytes_of(S.s_utf8.to_wchar()););
    OP("to_latin_1", return bytes_of(S.s_utf8.to_latin_1()););
    OP("to_std", return S.s_utf8.to_std_string() + std::string((const char *)S.s_utf8.to_std_u16string().data(), S.s_utf8.to_std_u16string().size() * 2););
    OP("to_int", return num(S.s_num.to_long_long()) + "|" + num(S.s_num.to_int()) + "|" + num((long long)(S.s_num.to_double() / 7)) + "|" + num(S.s_short.to_uint(16)););
    OP("iterate", long long sum = 0; for (char ch : S.s_long) sum = sum * 31 + (unsigned char)ch; return num(sum + S.s_long.front() + S.s_long.back() + S.s_long.at(3)););
    OP("copy", ST::string c1 = S.s_long; ST::string c2(S.s_utf8); c1 += c2; return bytes_of(c1););
    OP("concat", return bytes_of(S.s_short + S.s_long + "lit" + U'\x20AC' + S.s_utf8););
    OP("buffer_shared", return num(S.cb.compare(S.s_long.c_str()) + (long long)S.u16.size() + (long long)S.u32.size() + (long long)S.wb.size()) + bytes_of(ST::char_buffer(S.cb)););
    OP("long_to_utf16", return bytes_of(S.s_100.to_utf16()) + bytes_of(S.s_100b.to_utf16()) + bytes_of(ST::utf8_to_utf16(S.s_100b.c_str(), S.s_100b.size(), ST::check_validity)););
    OP("long_to_utf32", return bytes_of(S.s_100.to_utf32()) + bytes_of(S.s_100b.to_wchar()) + bytes_of(S.s_100.to_latin_1()););
    OP("big_copies", ST::string c1 = S.s_big; ST::string c2 = S.s_big.substr(0); ST::string c3 = S.s_big.left(5000); ST::char_buffer b = S.s_big.to_utf8();
                     return num((long long)(c1.size() + c2.size() + c3.size() + b.size())) + bytes_of(S.s_big.after_last("#")).substr(0, 40) + bytes_of(c2).substr(2400););
    OP("big_search", return num(S.s_big.find("XYZ") + S.s_big.find_last("ABC") + (long long)S.s_big.split('M').size() + S.s_big.to_upper().compare(S.s_big)) + bytes_of(S.s_big.replace("ABC", "x")).substr(0, 30););
    // ---- independent conversions on own data ----
    OP("conv_utf16", return bytes_of(ST::utf16_to_utf8(S.u16.data(), S.u16.size(), ST::check_validity)) + bytes_of(ST::utf8_to_utf16(S.s_utf8.c_str(), S.s_utf8.size(), ST::check_validity)););
    OP("conv_utf32", return bytes_of(ST::utf32_to_utf8(S.u32.data(), S.u32.size(), ST::check_validity)) + bytes_of(ST::utf8_to_utf32(S.s_utf8.c_str(), S.s_utf8.size(), ST::substitute_invalid)););
    OP("conv_latin1", return bytes_of(ST::latin_1_to_utf8("caf\xE9 \xFF", 6)) + bytes_of(ST::utf8_to_latin_1(S.s_utf8.c_str(), S.s_utf8.size(), ST::substitute_invalid)) + bytes_of(ST::latin_1_to_utf16("\xE9\xFF", 2)););
    OP("conv_repair", return bytes_of(ST::string::from_utf8("a\x80" "b\xC3" "c\xF8", 6, ST::substitute_invalid)) + bytes_of(ST::string::from_utf16(u"x\xD800y", 3, ST::substitute_invalid)););
    OP("conv_throw", try { (void)ST::string::from_utf8("\xC3", 1, ST::check_validity); return std::string("no"); } catch (const ST::unicode_error &e) { return std::string("unicode_error:") + e.what(); });
    // ---- formatting ----
    OP("format_int", return bytes_of(ST::format("{} {x} {#X} {+d} {08b} {o} {>6} {<6}|", 42, 255u, 48879, 7, (short)5, 8L, -3LL, (unsigned char)9)););
    OP("format_float", return bytes_of(ST::format("{} {.3f} {e} {E} {+.1f} {10.2f}|{<10.4}|", 1.5, 3.14159265, 12345.678, 0.00012, 2.25f, -7.125, 1.0 / 3)););
    OP("format_float_long", return bytes_of(ST::format("{.70f}|{f}|{.120e}|{.64f}", 1.0 / 3, 1e150, 2.5, 0.5)););
    OP("format_str", return bytes_of(ST::format("{}|{>12}|{<12}|{_*>8}|{.3}|{c}|{}", S.s_short, S.s_utf8.left(5), "cstr", "mid", S.s_long, 0x1F600, true)););
    OP("format_args", return bytes_of(ST::format("{&2} {&1} {} {&3}{{}}", "one", S.s_short, 3.0)););
    OP("format_err", try { (void)ST::format("{} {", 1); return std::string("no"); } catch (const ST::bad_format &e) { return std::string("bad_format:") + e.what(); });
    OP("format_latin1", return bytes_of(ST::format_latin_1("caf\xE9 {}", "\xFF")););
    OP("writef", std::ostringstream os; ST::writef(os, "{>5}|{x}|{.2f}", S.s_short, 3054, 2.0 / 3); std::wostringstream ws; ST::writef(ws, "{}-{}", S.s_utf8, 7); std::wstring w = ws.str(); return os.str() + std::string((const char *)w.data(), w.size() * sizeof(wchar_t)););
    OP("iostream", std::ostringstream os; os << S.s_utf8 << S.s_short; std::istringstream is("token rest"); ST::string t; is >> t; return os.str() + bytes_of(t););
    // ---- number <-> text ----
    OP("from_int", return bytes_of(ST::string::from_int(-1234567 - (int)(k % 1), 10) + ST::string::from_uint(0xDEADBEEFu, 16, true) + ST::string::from_int64(INT64_MIN, 36) + ST::string::from_uint64(UINT64_MAX, 2)););
    OP("from_float", return bytes_of(ST::string::from_double(1e100, 'f') + ST::string::from_float(0.1f) + ST::string::from_double(-2.5e-7, 'e') + ST::string::from_bool(true)););
    // ---- codecs ----
    OP("hex", ST::string h = ST::hex_encode(S.s_utf8.c_str(), S.s_utf8.size()); return bytes_of(h) + bytes_of(ST::hex_decode(h)) + bytes_of(ST::hex_decode(S.s_hex)););
    OP("base64", ST::string b = ST::base64_encode(S.s_long.c_str(), S.s_long.size()); return bytes_of(b) + bytes_of(ST::base64_decode(b)) + bytes_of(ST::base64_decode(S.s_b64)););
    OP("base64_buf", char outb[64]; ST_ssize_t n = ST::base64_decode(S.s_b64, outb, sizeof outb); ST_ssize_t m = ST::hex_decode(S.s_hex, outb + 32, 32); return num(n * 100 + m) + std::string(outb, n > 0 ? (size_t)n : 0););
    OP("codec_err", try { (void)ST::base64_decode(ST_LITERAL("ab=d")); return std::string("no"); } catch (const ST::codec_error &e) { return std::string("codec_error:") + e.what(); });
    // ---- streams and buffers on own objects ----
    OP("stream", ST::string_stream ss; ss << S.s_short << 42 << ' ' << 2.5 << L"w\x20AC" << u"\xD83D\xDE00" << -7LL << S.s_long; ss.append_char('#', 300); ss.erase(10); ss.truncate(280);
                 ST::string_stream s2(std::move(ss)); s2 << "tail"; return bytes_of(s2.to_string()) + num((long long)ss.size()););
    OP("buffer_own", ST::char_buffer a("short", 5), b; b.allocate(40, 'x'); ST::char_buffer c(b); a = std::move(c); b = a; ST::utf16_buffer u; u.allocate(20, u'\x20AC'); return bytes_of(a) + bytes_of(b) + bytes_of(u););
    OP("validation", return num((long long)ST::string::from_validated("plain", 5).size()) + bytes_of(ST::string("re\xC3\xA9l", ST_AUTO_SIZE, ST::check_validity)) + bytes_of(ST::string(L"w\x20ACz")););
    // ---- literals (each operation has its own: different threads evaluate different literals of one type) ----
    OP("lit16_a", using namespace ST::literals; return bytes_of(u"first UTF-16 literal \u20AC, longer than sixteen bytes"_st) + bytes_of(u"a16"_st) + bytes_of(u"buf16-a"_stbuf););
    OP("lit16_b", using namespace ST::literals; return bytes_of(u"another, different UTF-16 literal \U0001F600 of some length"_st) + bytes_of(u"b16"_st) + bytes_of(u"buf16-b"_stbuf););
    OP("lit32_a", using namespace ST::literals; return bytes_of(U"first UTF-32 literal \U0001F600 longer than sixteen bytes"_st) + bytes_of(U"a32"_st) + bytes_of(U"buf32-a"_stbuf););
    OP("lit32_b", using namespace ST::literals; return bytes_of(U"second UTF-32 literal, not the same text at all \u00E9"_st) + bytes_of(U"b32"_st) + bytes_of(U"buf32-b"_stbuf););
    OP("litw_a", using namespace ST::literals; return bytes_of(L"first wide literal \u20AC longer than sixteen bytes"_st) + bytes_of(L"aw"_st) + bytes_of(L"bufw-a"_stbuf););
    OP("litw_b", using namespace ST::literals; return bytes_of(L"second wide literal with other contents entirely"_st) + bytes_of(L"bw"_st) + bytes_of(L"bufw-b"_stbuf););
    OP("lit8", using namespace ST::literals; return bytes_of("narrow literal of more than sixteen bytes"_st) + bytes_of("n8"_st) + bytes_of("buf8"_stbuf) + bytes_of("{}-{x}"_stfmt(7, 255)););
    OP("trim_sets", return bytes_of(S.s_long.trim("e \t")) + "|" + bytes_of(S.s_mixed.trim_left("key=")) + "|" + bytes_of(S.s_num.trim_right("0123456789")) + "|" + bytes_of(S.s_hex.trim("0f")););
    // ---- ST::printf to a thread's own FILE*, different pad characters and widths in different operations ----
    OP("printf_a", char *mem = nullptr; size_t msz = 0; FILE *f = open_memstream(&mem, &msz); ST::printf(f, "{08}|{_*12}|{>10}|{_.<9}", 4242, "star", S.s_short, 7); ST::printf(f, "{020x}", 48879u); fclose(f); std::string r(mem, msz); free(mem); return r;);
    OP("printf_b", char *mem = nullptr; size_t msz = 0; FILE *f = open_memstream(&mem, &msz); ST::printf(f, "{_#14}|{_-6}|{12}|{_=>16}", "hash", 1, S.s_short, 2.5); ST::printf(f, "{_~30}", "tilde"); fclose(f); std::string r(mem, msz); free(mem); return r;);
    // ---- searches with needles of 4..32 bytes in texts of 64+ bytes, different needles in different operations ----
    OP("search_a", return num(S.s_100.find("tail ") * 7 + S.s_big.find("MNOPQRSTUV") + S.s_big.find_last("WXYZABCD") + (long long)S.s_big.split("GHIJK").size()) + bytes_of(S.s_100b.replace("yyyy", "<4y>")).substr(0, 60) + bytes_of(S.s_big.after_first("QRSTUVWX")).substr(0, 20););
    OP("search_b", return num(S.s_100.find("zzzzzzzz") * 3 + S.s_big.find("BCDEFGHIJKLMNOPQRSTUVWXY") + S.s_big.find_last("LMNOPQ") + (long long)S.s_big.split("UVWXYZA").size()) + bytes_of(S.s_100.replace("aaaaaaaa", "8")).substr(0, 60) + bytes_of(S.s_big.before_last("CDEFGH")).substr(2300, 40););
    OP("search_c", return num((long long)S.s_big.contains("ZABCDEFGHIJ") + 2 * S.s_100b.contains("bbbbb\xF0") + S.s_big.find("NOPQR", ST::case_insensitive) + S.s_100.find("A TAIL", ST::case_insensitive)) + join(S.s_100.split(" tail ")).substr(0, 50););
#undef OP
    return c;
}

static void put_hex(Out &o, const std::string &s) {
    static const char *d = "0123456789abcdef";
    o.c('"');
    for (unsigned char ch : s) { o.c(d[ch >> 4]); o.c(d[ch & 15]); }
    o.c('"');
}

int main(int argc, char **argv) {
    install_handlers();
    wd_limit() = 60;
    int K = 8, rounds = 20; uint64_t seed = (uint64_t)env_ll("VERIF_SEED", 1);
    for (int a = 1; a < argc; ++a) {
        std::string k = argv[a]; const char *v = a + 1 < argc ? argv[a + 1] : "";
        if (k == "--threads") { K = atoi(v); ++a; } else if (k == "--rounds") { rounds = atoi(v); ++a; }
        else if (k == "--seed") { seed = strtoull(v, 0, 0); ++a; }
        else if (k == "--from") { ++a; return 0; }    // nothing to resume: one execution per process
        else { fprintf(stderr, "unknown arg %s\n", k.c_str()); return 2; }
    }
    Out &o = out();
    std::vector<NamedOp> cat = catalogue();
    const size_t N = cat.size();
    o.s("{").k("e").q("Platform").c(',').k("i").i(-1).c(',').k("threads").i(K).c(',').k("rounds").i(rounds).c(',').k("nops").i((long long)N).s("}\n");
    o.flush();
    Shared *shared = new Shared();
    // results[t][round][op]
    std::vector<std::vector<std::vector<std::string>>> results(K, std::vector<std::vector<std::string>>(rounds, std::vector<std::string>(N)));
    std::atomic<int> ready{0}; std::atomic<bool> go{false};
    set_cur(0, "{\"e\":\"par\",\"i\":0}");
    std::vector<std::thread> th;
    for (int t = 0; t < K; ++t) th.emplace_back([&, t] {
        Rng rng(seed * 1000 + t);
        ready.fetch_add(1);
        while (!go.load(std::memory_order_acquire)) { }
        for (int r = 0; r < rounds; ++r) {
            // every thread starts each round at a different operation, round 0 at the same one (first-use races)
            size_t start = r == 0 ? 0 : (size_t)rng.below(N);
            for (size_t j = 0; j < N; ++j) {
                size_t k = (start + j) % N;
                results[t][r][k] = cat[k].f(*shared, (unsigned)k);
            }
        }
    });
    while (ready.load() < K) { }
    go.store(true, std::memory_order_release);
    for (auto &x : th) x.join();
    // solo pass
    set_cur(1, "{\"e\":\"solo\",\"i\":1}");
    for (size_t k = 0; k < N; ++k) {
        std::string r = cat[k].f(*shared, (unsigned)k);
        o.s("{").k("e").q("solo").c(',').k("i").i((long long)k + 1).c(',').k("k").i((long long)k + 1).c(',').k("op").q(cat[k].name).c(',').k("r"); put_hex(o, r); o.s("}\n");
    }
    long long idx = (long long)N;
    for (int t = 0; t < K; ++t) for (int r = 0; r < rounds; ++r) for (size_t k = 0; k < N; ++k) {
        ++idx;
        o.s("{").k("e").q("par").c(',').k("i").i(idx).c(',').k("t").i(t + 1).c(',').k("round").i(r + 1).c(',').k("k").i((long long)k + 1).c(',').k("op").q(cat[k].name).c(',').k("r");
        put_hex(o, results[t][r][k]); o.s("}\n");
        o.maybe_flush();
    }
    o.s("{").k("e").q("end").c(',').k("i").i(idx + 1).s("}\n");
    o.flush();
    delete shared;
    return 0;
}
