// Executor for the conversion properties (C01, C02, C03).
// Runs every public conversion route on generated inputs and records the
// outcomes, grouped by identical outcome.  No expectations live here.
#include "common/verif.h"
#include "common/alloc_shim.inc"

#include <string_theory/string>
#include <string_theory/string_stream>
#include <functional>
#include <map>
#include <algorithm>

using namespace vf;
using ST::utf_validation_t;

static void assert_hook(const char *file, int line, const char *msg) {
    throw assert_failure{file, line, msg};
}

enum Enc { U8 = 0, U16, U32, WC, L1 };
static const char *enc_name[] = {"utf8", "utf16", "utf32", "wchar", "latin1"};
static const char *mode_name(utf_validation_t m) {
    return m == ST::assume_valid ? "assume" : m == ST::substitute_invalid ? "substitute" : "check";
}

struct Res {
    std::string res = "ok";       // "ok" | exception class
    std::string what;
    std::string units;            // serialized JSON units
    long long n = 0, z = 0;
};

template <class T> static Res R(const ST::buffer<T> &b) {
    Res r; Out o; put_units(o, b.data(), b.size()); r.units = o.b; r.n = (long long)b.size();
    r.z = (long long)(unsigned long)b.data()[b.size()];
    return r;
}
static Res R(const ST::string &s) {
    Res r; Out o; put_units(o, s.c_str(), s.size()); r.units = o.b; r.n = (long long)s.size();
    r.z = (unsigned char)s.c_str()[s.size()];
    return r;
}
template <class T> static Res RS(const std::basic_string<T> &s) {
    Res r; Out o; put_units(o, reinterpret_cast<const typename std::conditional<std::is_same<T, char8_t>::value, char, T>::type *>(s.data()), s.size());
    r.units = o.b; r.n = (long long)s.size(); r.z = 0;
    return r;
}
template <class T> static Res RV(const std::basic_string_view<T> &s) {
    Res r; Out o; put_units(o, s.data(), s.size()); r.units = o.b; r.n = (long long)s.size(); r.z = 0;
    return r;
}

// mode kinds
enum { M_ARG = 0, M_DFLT = 1, M_ASSUME = 2 };

template <class T> struct Route {
    std::string name; Enc dst; int mkind; bool sub; bool cstr; bool chain;
    std::function<Res(const T *, size_t, utf_validation_t, bool)> fn;
};

template <class T> struct Table { std::vector<Route<T>> v; };

#define RT(tbl, nm, dst, mk, sub, cstr, body) \
    tbl.v.push_back({nm, dst, mk, sub, cstr, false, [](const auto *p, size_t n, utf_validation_t m, bool sb) -> Res { (void)p; (void)n; (void)m; (void)sb; body }})
#define CH(tbl, nm, dst, body) \
    tbl.v.push_back({nm, dst, M_ARG, false, false, true, [](const auto *p, size_t n, utf_validation_t m, bool sb) -> Res { (void)sb; body }})

using ST::string;
typedef const char8_t *c8p;

// ---------------------------------------------------------------------------
static Table<char> T8;
static Table<char16_t> T16;
static Table<char32_t> T32;
static Table<wchar_t> TW;
static Table<char> TL;

static void build_tables() {
    // ======================= source: UTF-8 (char) ==========================
    RT(T8, "utf8_to_utf16(p,n,m)", U16, M_ARG, 0, 0, return R(ST::utf8_to_utf16(p, n, m)););
    RT(T8, "utf8_to_utf16(buf,m)", U16, M_ARG, 0, 0, return R(ST::utf8_to_utf16(ST::char_buffer(p, n), m)););
    RT(T8, "utf8_to_utf16(c8,n,m)", U16, M_ARG, 0, 0, return R(ST::utf8_to_utf16((c8p)p, n, m)););
    RT(T8, "utf8_to_utf16(p,n)", U16, M_DFLT, 0, 0, return R(ST::utf8_to_utf16(p, n)););
    RT(T8, "utf8_to_utf16(buf)", U16, M_DFLT, 0, 0, return R(ST::utf8_to_utf16(ST::char_buffer(p, n))););
    RT(T8, "string(p,n,m).to_utf16", U16, M_ARG, 0, 0, return R(string(p, n, m).to_utf16()););
    RT(T8, "string(p,n,m).to_std_u16string", U16, M_ARG, 0, 0, return RS(string(p, n, m).to_std_u16string()););
    RT(T8, "string(p,n,m).to_buffer(u16)", U16, M_ARG, 0, 0, ST::utf16_buffer b; string(p, n, m).to_buffer(b); return R(b););
    RT(T8, "string(p,n,m).to_buffer(u16 holding a longer text)", U16, M_ARG, 0, 0, ST::utf16_buffer b(u"an earlier, longer result \xD83D\xDE00 still in the caller's buffer", 57); string(p, n, m).to_buffer(b); return R(b););
    RT(T8, "string(p,n,m).to_std_string(u16&)", U16, M_ARG, 0, 0, std::u16string b; string(p, n, m).to_std_string(b); return RS(b););

    RT(T8, "utf8_to_utf32(p,n,m)", U32, M_ARG, 0, 0, return R(ST::utf8_to_utf32(p, n, m)););
    RT(T8, "utf8_to_utf32(buf,m)", U32, M_ARG, 0, 0, return R(ST::utf8_to_utf32(ST::char_buffer(p, n), m)););
    RT(T8, "utf8_to_utf32(c8,n,m)", U32, M_ARG, 0, 0, return R(ST::utf8_to_utf32((c8p)p, n, m)););
    RT(T8, "utf8_to_utf32(p,n)", U32, M_DFLT, 0, 0, return R(ST::utf8_to_utf32(p, n)););
    RT(T8, "utf8_to_utf32(buf)", U32, M_DFLT, 0, 0, return R(ST::utf8_to_utf32(ST::char_buffer(p, n))););
    RT(T8, "string(p,n,m).to_utf32", U32, M_ARG, 0, 0, return R(string(p, n, m).to_utf32()););
    RT(T8, "string(p,n,m).to_std_u32string", U32, M_ARG, 0, 0, return RS(string(p, n, m).to_std_u32string()););
    RT(T8, "string(p,n,m).to_buffer(u32)", U32, M_ARG, 0, 0, ST::utf32_buffer b; string(p, n, m).to_buffer(b); return R(b););
    RT(T8, "string(p,n,m).to_buffer(u32 holding a longer text)", U32, M_ARG, 0, 0, ST::utf32_buffer b(U"an earlier, longer result still in the caller's buffer", 54); string(p, n, m).to_buffer(b); return R(b););
    RT(T8, "string(p,n,m).to_std_string(u32&)", U32, M_ARG, 0, 0, std::u32string b; string(p, n, m).to_std_string(b); return RS(b););

    RT(T8, "utf8_to_wchar(p,n,m)", WC, M_ARG, 0, 0, return R(ST::utf8_to_wchar(p, n, m)););
    RT(T8, "utf8_to_wchar(buf,m)", WC, M_ARG, 0, 0, return R(ST::utf8_to_wchar(ST::char_buffer(p, n), m)););
    RT(T8, "utf8_to_wchar(c8,n,m)", WC, M_ARG, 0, 0, return R(ST::utf8_to_wchar((c8p)p, n, m)););
    RT(T8, "utf8_to_wchar(p,n)", WC, M_DFLT, 0, 0, return R(ST::utf8_to_wchar(p, n)););
    RT(T8, "utf8_to_wchar(buf)", WC, M_DFLT, 0, 0, return R(ST::utf8_to_wchar(ST::char_buffer(p, n))););
    RT(T8, "string(p,n,m).to_wchar", WC, M_ARG, 0, 0, return R(string(p, n, m).to_wchar()););
    RT(T8, "string(p,n,m).to_std_wstring", WC, M_ARG, 0, 0, return RS(string(p, n, m).to_std_wstring()););
    RT(T8, "string(p,n,m).to_buffer(wc)", WC, M_ARG, 0, 0, ST::wchar_buffer b; string(p, n, m).to_buffer(b); return R(b););
    RT(T8, "string(p,n,m).to_buffer(wc holding a longer text)", WC, M_ARG, 0, 0, ST::wchar_buffer b(L"an earlier, longer result still in the caller's buffer", 54); string(p, n, m).to_buffer(b); return R(b););
    RT(T8, "string(p,n,m).to_std_string(w&)", WC, M_ARG, 0, 0, std::wstring b; string(p, n, m).to_std_string(b); return RS(b););

    RT(T8, "utf8_to_latin_1(p,n,m,s)", L1, M_ARG, 1, 0, return R(ST::utf8_to_latin_1(p, n, m, sb)););
    RT(T8, "utf8_to_latin_1(buf,m,s)", L1, M_ARG, 1, 0, return R(ST::utf8_to_latin_1(ST::char_buffer(p, n), m, sb)););
    RT(T8, "utf8_to_latin_1(c8,n,m,s)", L1, M_ARG, 1, 0, return R(ST::utf8_to_latin_1((c8p)p, n, m, sb)););
    RT(T8, "utf8_to_latin_1(p,n)", L1, M_DFLT, 0, 0, return R(ST::utf8_to_latin_1(p, n)););
    RT(T8, "utf8_to_latin_1(p,n,m)", L1, M_ARG, 0, 0, return R(ST::utf8_to_latin_1(p, n, m)););
    RT(T8, "string(p,n,m).to_latin_1(s)", L1, M_ARG, 1, 0, return R(string(p, n, m).to_latin_1(sb)););
    RT(T8, "string(p,n,m).to_latin_1()", L1, M_ARG, 0, 0, return R(string(p, n, m).to_latin_1()););
    RT(T8, "string(p,n,m).to_std_string(0,s)", L1, M_ARG, 1, 0, return RS(string(p, n, m).to_std_string(false, sb)););
    RT(T8, "string(p,n,m).to_buffer(cb,0,s)", L1, M_ARG, 1, 0, ST::char_buffer b; string(p, n, m).to_buffer(b, false, sb); return R(b););
    RT(T8, "string(p,n,m).to_buffer(cb holding a longer text,0,s)", L1, M_ARG, 1, 0, ST::char_buffer b("an earlier, longer result still in the caller's buffer", 54); string(p, n, m).to_buffer(b, false, sb); return R(b););
    RT(T8, "string(p,n,m).to_std_string(s&,0,s)", L1, M_ARG, 1, 0, std::string b; string(p, n, m).to_std_string(b, false, sb); return RS(b););

    // -> ST::string (UTF-8 to UTF-8 under validation)
    RT(T8, "string(p,n,m)", U8, M_ARG, 0, 0, return R(string(p, n, m)););
    RT(T8, "string(cbuf,m)", U8, M_ARG, 0, 0, ST::char_buffer b(p, n); return R(string(b, m)););
    RT(T8, "string(cbuf&&,m)", U8, M_ARG, 0, 0, ST::char_buffer b(p, n); return R(string(std::move(b), m)););
    RT(T8, "string(std::string,m)", U8, M_ARG, 0, 0, return R(string(std::string(p, n), m)););
    RT(T8, "string(string_view,m)", U8, M_ARG, 0, 0, return R(string(std::string_view(p, n), m)););
    RT(T8, "string(c8,n,m)", U8, M_ARG, 0, 0, return R(string((c8p)p, n, m)););
    RT(T8, "string(u8string,m)", U8, M_ARG, 0, 0, return R(string(std::u8string((c8p)p, n), m)););
    RT(T8, "string(u8string_view,m)", U8, M_ARG, 0, 0, return R(string(std::u8string_view((c8p)p, n), m)););
    RT(T8, "set(p,n,m)", U8, M_ARG, 0, 0, string s("old value that is long enough to be on the heap"); s.set(p, n, m); return R(s););
    RT(T8, "set(cbuf,m)", U8, M_ARG, 0, 0, string s("x"); ST::char_buffer b(p, n); s.set(b, m); return R(s););
    RT(T8, "set(cbuf&&,m)", U8, M_ARG, 0, 0, string s; ST::char_buffer b(p, n); s.set(std::move(b), m); return R(s););
    RT(T8, "set(std::string,m)", U8, M_ARG, 0, 0, string s; s.set(std::string(p, n), m); return R(s););
    RT(T8, "set(string_view,m)", U8, M_ARG, 0, 0, string s; s.set(std::string_view(p, n), m); return R(s););
    RT(T8, "set(c8,n,m)", U8, M_ARG, 0, 0, string s; s.set((c8p)p, n, m); return R(s););
    RT(T8, "set(u8string,m)", U8, M_ARG, 0, 0, string s; s.set(std::u8string((c8p)p, n), m); return R(s););
    RT(T8, "set(u8string_view,m)", U8, M_ARG, 0, 0, string s; s.set(std::u8string_view((c8p)p, n), m); return R(s););
    RT(T8, "from_utf8(p,n,m)", U8, M_ARG, 0, 0, return R(string::from_utf8(p, n, m)););
    RT(T8, "from_utf8(c8,n,m)", U8, M_ARG, 0, 0, return R(string::from_utf8((c8p)p, n, m)););
    RT(T8, "from_utf8(cbuf,m)", U8, M_ARG, 0, 0, return R(string::from_utf8(ST::char_buffer(p, n), m)););
    RT(T8, "from_std_string(std::string,m)", U8, M_ARG, 0, 0, return R(string::from_std_string(std::string(p, n), m)););
    RT(T8, "from_std_string(string_view,m)", U8, M_ARG, 0, 0, return R(string::from_std_string(std::string_view(p, n), m)););
    RT(T8, "from_std_string(u8string,m)", U8, M_ARG, 0, 0, return R(string::from_std_string(std::u8string((c8p)p, n), m)););
    RT(T8, "from_std_string(u8string_view,m)", U8, M_ARG, 0, 0, return R(string::from_std_string(std::u8string_view((c8p)p, n), m)););
    // readers of a string built with (p,n,m)
    RT(T8, "string(p,n,m).to_utf8", U8, M_ARG, 0, 0, return R(string(p, n, m).to_utf8()););
    RT(T8, "string(p,n,m).to_std_string", U8, M_ARG, 0, 0, return RS(string(p, n, m).to_std_string()););
    RT(T8, "string(p,n,m).to_std_u8string", U8, M_ARG, 0, 0, return RS(string(p, n, m).to_std_u8string()););
    RT(T8, "string(p,n,m).view", U8, M_ARG, 0, 0, string s(p, n, m); return RV(s.view()););
    RT(T8, "string(p,n,m).to_buffer(cb)", U8, M_ARG, 0, 0, ST::char_buffer b; string(p, n, m).to_buffer(b); return R(b););
    RT(T8, "string(p,n,m).to_buffer(cb holding a longer text)", U8, M_ARG, 0, 0, ST::char_buffer b("an earlier, longer result still in the caller's buffer", 54); string(p, n, m).to_buffer(b); return R(b););
    RT(T8, "copy of string(p,n,m)", U8, M_ARG, 0, 0, string s(p, n, m); string t(s); return R(t););
    // default-mode overloads
    RT(T8, "string(p,n)", U8, M_DFLT, 0, 0, return R(string(p, n)););
    RT(T8, "string(cbuf)", U8, M_DFLT, 0, 0, ST::char_buffer b(p, n); return R(string(b)););
    RT(T8, "string(std::string)", U8, M_DFLT, 0, 0, return R(string(std::string(p, n))););
    RT(T8, "string(string_view)", U8, M_DFLT, 0, 0, return R(string(std::string_view(p, n))););
    RT(T8, "s=cbuf", U8, M_DFLT, 0, 0, string s; ST::char_buffer b(p, n); s = b; return R(s););
    RT(T8, "s=cbuf&&", U8, M_DFLT, 0, 0, string s; s = ST::char_buffer(p, n); return R(s););
    RT(T8, "s=std::string", U8, M_DFLT, 0, 0, string s; s = std::string(p, n); return R(s););
    RT(T8, "s=string_view", U8, M_DFLT, 0, 0, string s; s = std::string_view(p, n); return R(s););
    RT(T8, "s=u8string", U8, M_DFLT, 0, 0, string s; s = std::u8string((c8p)p, n); return R(s););
    RT(T8, "s=u8string_view", U8, M_DFLT, 0, 0, string s; s = std::u8string_view((c8p)p, n); return R(s););
    RT(T8, "set(p,n)", U8, M_DFLT, 0, 0, string s; s.set(p, n); return R(s););
    RT(T8, "from_utf8(p,n)", U8, M_DFLT, 0, 0, return R(string::from_utf8(p, n)););
    RT(T8, "from_utf8(cbuf)", U8, M_DFLT, 0, 0, return R(string::from_utf8(ST::char_buffer(p, n))););
    RT(T8, "from_std_string(std::string)", U8, M_DFLT, 0, 0, return R(string::from_std_string(std::string(p, n))););
    // NUL-terminated forms (p is terminated when cstr routes run)
    RT(T8, "string(z)", U8, M_DFLT, 0, 1, return R(string(p)););
    RT(T8, "string(c8z)", U8, M_DFLT, 0, 1, return R(string((c8p)p)););
    RT(T8, "s=z", U8, M_DFLT, 0, 1, string s("abc"); s = p; return R(s););
    RT(T8, "s=c8z", U8, M_DFLT, 0, 1, string s; s = (c8p)p; return R(s););
    RT(T8, "set(z)", U8, M_DFLT, 0, 1, string s; s.set(p); return R(s););
    RT(T8, "from_utf8(z)", U8, M_DFLT, 0, 1, return R(string::from_utf8(p)););
    RT(T8, "string()+z", U8, M_DFLT, 0, 1, return R(string() + p););
    RT(T8, "z+string()", U8, M_DFLT, 0, 1, return R(p + string()););
    RT(T8, "string()+c8z", U8, M_DFLT, 0, 1, return R(string() + (c8p)p););
    RT(T8, "s+=z", U8, M_DFLT, 0, 1, string s; s += p; return R(s););
    RT(T8, "s+=c8z", U8, M_DFLT, 0, 1, string s; s += (c8p)p; return R(s););
    // no validation by contract
    RT(T8, "from_validated(p,n)", U8, M_ASSUME, 0, 0, return R(string::from_validated(p, n)););
    RT(T8, "from_validated(c8,n)", U8, M_ASSUME, 0, 0, return R(string::from_validated((c8p)p, n)););
    RT(T8, "from_validated(cbuf)", U8, M_ASSUME, 0, 0, ST::char_buffer b(p, n); return R(string::from_validated(b)););
    RT(T8, "from_validated(cbuf&&)", U8, M_ASSUME, 0, 0, return R(string::from_validated(ST::char_buffer(p, n))););
    RT(T8, "set_validated(p,n)", U8, M_ASSUME, 0, 0, string s("q"); s.set_validated(p, n); return R(s););
    RT(T8, "set_validated(cbuf)", U8, M_ASSUME, 0, 0, string s; ST::char_buffer b(p, n); s.set_validated(b); return R(s););
    RT(T8, "_st(p,n)", U8, M_ASSUME, 0, 0, return R(ST::literals::operator""_st(p, n)););
    RT(T8, "_st(c8,n)", U8, M_ASSUME, 0, 0, return R(ST::literals::operator""_st((c8p)p, n)););
    RT(T8, "_stbuf(p,n)", U8, M_ASSUME, 0, 0, return R(ST::literals::operator""_stbuf(p, n)););
    // string_stream insertion of raw UTF-8 bytes performs no validation
    RT(T8, "string_stream.append(p,n).to_string(true,m)", U8, M_ARG, 0, 0, ST::string_stream ss; ss.append(p, n); return R(ss.to_string(true, m)););
    // chains (only run on inputs that claim to be well-formed)
    CH(T8, "chain 8-16-32-8", U8, return R(ST::utf32_to_utf8(ST::utf16_to_utf32(ST::utf8_to_utf16(p, n, m), m), m)););
    CH(T8, "chain 8-32-16-8", U8, return R(ST::utf16_to_utf8(ST::utf32_to_utf16(ST::utf8_to_utf32(p, n, m), m), m)););
    CH(T8, "chain 8-wc-16-wc-8", U8, return R(ST::wchar_to_utf8(ST::utf16_to_wchar(ST::wchar_to_utf16(ST::utf8_to_wchar(p, n, m), m), m), m)););
    CH(T8, "chain string-u16-string", U8, return R(string(string(p, n, m).to_utf16(), m)););
    CH(T8, "chain string-u32-string", U8, return R(string(string(p, n, m).to_utf32(), m)););
    CH(T8, "chain string-wchar-string", U8, return R(string(string(p, n, m).to_wchar(), m)););
    CH(T8, "chain string-std-strings", U8, return R(string(string(string(p, n, m).to_std_u16string(), m).to_std_u32string(), m)););

    // ======================= source: UTF-16 ================================
    RT(T16, "utf16_to_utf8(p,n,m)", U8, M_ARG, 0, 0, return R(ST::utf16_to_utf8(p, n, m)););
    RT(T16, "utf16_to_utf8(buf,m)", U8, M_ARG, 0, 0, return R(ST::utf16_to_utf8(ST::utf16_buffer(p, n), m)););
    RT(T16, "utf16_to_utf8(p,n)", U8, M_DFLT, 0, 0, return R(ST::utf16_to_utf8(p, n)););
    RT(T16, "utf16_to_utf8(buf)", U8, M_DFLT, 0, 0, return R(ST::utf16_to_utf8(ST::utf16_buffer(p, n))););
    RT(T16, "string(p16,n,m)", U8, M_ARG, 0, 0, return R(string(p, n, m)););
    RT(T16, "string(u16buf,m)", U8, M_ARG, 0, 0, return R(string(ST::utf16_buffer(p, n), m)););
    RT(T16, "string(u16string,m)", U8, M_ARG, 0, 0, return R(string(std::u16string(p, n), m)););
    RT(T16, "string(u16string_view,m)", U8, M_ARG, 0, 0, return R(string(std::u16string_view(p, n), m)););
    RT(T16, "set(p16,n,m)", U8, M_ARG, 0, 0, string s("old"); s.set(p, n, m); return R(s););
    RT(T16, "set(u16buf,m)", U8, M_ARG, 0, 0, string s; s.set(ST::utf16_buffer(p, n), m); return R(s););
    RT(T16, "set(u16string,m)", U8, M_ARG, 0, 0, string s; s.set(std::u16string(p, n), m); return R(s););
    RT(T16, "set(u16string_view,m)", U8, M_ARG, 0, 0, string s; s.set(std::u16string_view(p, n), m); return R(s););
    RT(T16, "from_utf16(p,n,m)", U8, M_ARG, 0, 0, return R(string::from_utf16(p, n, m)););
    RT(T16, "from_utf16(buf,m)", U8, M_ARG, 0, 0, return R(string::from_utf16(ST::utf16_buffer(p, n), m)););
    RT(T16, "from_std_string(u16string,m)", U8, M_ARG, 0, 0, return R(string::from_std_string(std::u16string(p, n), m)););
    RT(T16, "from_std_string(u16string_view,m)", U8, M_ARG, 0, 0, return R(string::from_std_string(std::u16string_view(p, n), m)););
    RT(T16, "string(p16,n)", U8, M_DFLT, 0, 0, return R(string(p, n)););
    RT(T16, "s=u16buf", U8, M_DFLT, 0, 0, string s; s = ST::utf16_buffer(p, n); return R(s););
    RT(T16, "s=u16string", U8, M_DFLT, 0, 0, string s; s = std::u16string(p, n); return R(s););
    RT(T16, "s=u16string_view", U8, M_DFLT, 0, 0, string s; s = std::u16string_view(p, n); return R(s););
    RT(T16, "from_utf16(p,n)", U8, M_DFLT, 0, 0, return R(string::from_utf16(p, n)););
    RT(T16, "string(z16)", U8, M_DFLT, 0, 1, return R(string(p)););
    RT(T16, "s=z16", U8, M_DFLT, 0, 1, string s; s = p; return R(s););
    RT(T16, "set(z16)", U8, M_DFLT, 0, 1, string s; s.set(p); return R(s););
    RT(T16, "from_utf16(z16)", U8, M_DFLT, 0, 1, return R(string::from_utf16(p)););
    RT(T16, "string()+z16", U8, M_DFLT, 0, 1, return R(string() + p););
    RT(T16, "z16+string()", U8, M_DFLT, 0, 1, return R(p + string()););
    RT(T16, "s+=z16", U8, M_DFLT, 0, 1, string s; s += p; return R(s););
    RT(T16, "_st(p16,n)", U8, M_ASSUME, 0, 0, return R(ST::literals::operator""_st(p, n)););
    RT(T16, "string_stream<<z16", U8, M_DFLT, 0, 1, ST::string_stream ss; ss << p; return R(ss.to_string(true, ST::assume_valid)););
    RT(T16, "utf16_to_utf32(p,n,m)", U32, M_ARG, 0, 0, return R(ST::utf16_to_utf32(p, n, m)););
    RT(T16, "utf16_to_utf32(buf,m)", U32, M_ARG, 0, 0, return R(ST::utf16_to_utf32(ST::utf16_buffer(p, n), m)););
    RT(T16, "utf16_to_utf32(p,n)", U32, M_DFLT, 0, 0, return R(ST::utf16_to_utf32(p, n)););
    RT(T16, "utf16_to_wchar(p,n,m)", WC, M_ARG, 0, 0, return R(ST::utf16_to_wchar(p, n, m)););
    RT(T16, "utf16_to_wchar(buf,m)", WC, M_ARG, 0, 0, return R(ST::utf16_to_wchar(ST::utf16_buffer(p, n), m)););
    RT(T16, "utf16_to_wchar(p,n)", WC, M_DFLT, 0, 0, return R(ST::utf16_to_wchar(p, n)););
    RT(T16, "utf16_to_latin_1(p,n,m,s)", L1, M_ARG, 1, 0, return R(ST::utf16_to_latin_1(p, n, m, sb)););
    RT(T16, "utf16_to_latin_1(buf,m,s)", L1, M_ARG, 1, 0, return R(ST::utf16_to_latin_1(ST::utf16_buffer(p, n), m, sb)););
    RT(T16, "utf16_to_latin_1(p,n)", L1, M_DFLT, 0, 0, return R(ST::utf16_to_latin_1(p, n)););
    RT(T16, "_stbuf(p16,n)", U16, M_ASSUME, 0, 0, return R(ST::literals::operator""_stbuf(p, n)););
    CH(T16, "chain 16-8-32-16", U16, return R(ST::utf32_to_utf16(ST::utf8_to_utf32(ST::utf16_to_utf8(p, n, m), m), m)););
    CH(T16, "chain 16-32-8-16", U16, return R(ST::utf8_to_utf16(ST::utf32_to_utf8(ST::utf16_to_utf32(p, n, m), m), m)););
    CH(T16, "chain 16-string-16", U16, return R(string(p, n, m).to_utf16()););
    CH(T16, "chain 16-wc-16", U16, return R(ST::wchar_to_utf16(ST::utf16_to_wchar(p, n, m), m)););

    // ======================= source: UTF-32 ================================
    RT(T32, "utf32_to_utf8(p,n,m)", U8, M_ARG, 0, 0, return R(ST::utf32_to_utf8(p, n, m)););
    RT(T32, "utf32_to_utf8(buf,m)", U8, M_ARG, 0, 0, return R(ST::utf32_to_utf8(ST::utf32_buffer(p, n), m)););
    RT(T32, "utf32_to_utf8(p,n)", U8, M_DFLT, 0, 0, return R(ST::utf32_to_utf8(p, n)););
    RT(T32, "utf32_to_utf8(buf)", U8, M_DFLT, 0, 0, return R(ST::utf32_to_utf8(ST::utf32_buffer(p, n))););
    RT(T32, "string(p32,n,m)", U8, M_ARG, 0, 0, return R(string(p, n, m)););
    RT(T32, "string(u32buf,m)", U8, M_ARG, 0, 0, return R(string(ST::utf32_buffer(p, n), m)););
    RT(T32, "string(u32string,m)", U8, M_ARG, 0, 0, return R(string(std::u32string(p, n), m)););
    RT(T32, "string(u32string_view,m)", U8, M_ARG, 0, 0, return R(string(std::u32string_view(p, n), m)););
    RT(T32, "set(p32,n,m)", U8, M_ARG, 0, 0, string s("old"); s.set(p, n, m); return R(s););
    RT(T32, "set(u32buf,m)", U8, M_ARG, 0, 0, string s; s.set(ST::utf32_buffer(p, n), m); return R(s););
    RT(T32, "set(u32string,m)", U8, M_ARG, 0, 0, string s; s.set(std::u32string(p, n), m); return R(s););
    RT(T32, "set(u32string_view,m)", U8, M_ARG, 0, 0, string s; s.set(std::u32string_view(p, n), m); return R(s););
    RT(T32, "from_utf32(p,n,m)", U8, M_ARG, 0, 0, return R(string::from_utf32(p, n, m)););
    RT(T32, "from_utf32(buf,m)", U8, M_ARG, 0, 0, return R(string::from_utf32(ST::utf32_buffer(p, n), m)););
    RT(T32, "from_std_string(u32string,m)", U8, M_ARG, 0, 0, return R(string::from_std_string(std::u32string(p, n), m)););
    RT(T32, "from_std_string(u32string_view,m)", U8, M_ARG, 0, 0, return R(string::from_std_string(std::u32string_view(p, n), m)););
    RT(T32, "string(p32,n)", U8, M_DFLT, 0, 0, return R(string(p, n)););
    RT(T32, "s=u32buf", U8, M_DFLT, 0, 0, string s; s = ST::utf32_buffer(p, n); return R(s););
    RT(T32, "s=u32string", U8, M_DFLT, 0, 0, string s; s = std::u32string(p, n); return R(s););
    RT(T32, "s=u32string_view", U8, M_DFLT, 0, 0, string s; s = std::u32string_view(p, n); return R(s););
    RT(T32, "from_utf32(p,n)", U8, M_DFLT, 0, 0, return R(string::from_utf32(p, n)););
    RT(T32, "string(z32)", U8, M_DFLT, 0, 1, return R(string(p)););
    RT(T32, "s=z32", U8, M_DFLT, 0, 1, string s; s = p; return R(s););
    RT(T32, "set(z32)", U8, M_DFLT, 0, 1, string s; s.set(p); return R(s););
    RT(T32, "from_utf32(z32)", U8, M_DFLT, 0, 1, return R(string::from_utf32(p)););
    RT(T32, "string()+z32", U8, M_DFLT, 0, 1, return R(string() + p););
    RT(T32, "z32+string()", U8, M_DFLT, 0, 1, return R(p + string()););
    RT(T32, "s+=z32", U8, M_DFLT, 0, 1, string s; s += p; return R(s););
    RT(T32, "_st(p32,n)", U8, M_ASSUME, 0, 0, return R(ST::literals::operator""_st(p, n)););
    RT(T32, "string_stream<<z32", U8, M_DFLT, 0, 1, ST::string_stream ss; ss << p; return R(ss.to_string(true, ST::assume_valid)););
    RT(T32, "utf32_to_utf16(p,n,m)", U16, M_ARG, 0, 0, return R(ST::utf32_to_utf16(p, n, m)););
    RT(T32, "utf32_to_utf16(buf,m)", U16, M_ARG, 0, 0, return R(ST::utf32_to_utf16(ST::utf32_buffer(p, n), m)););
    RT(T32, "utf32_to_utf16(p,n)", U16, M_DFLT, 0, 0, return R(ST::utf32_to_utf16(p, n)););
    RT(T32, "utf32_to_wchar(p,n,m)", WC, M_ARG, 0, 0, return R(ST::utf32_to_wchar(p, n, m)););
    RT(T32, "utf32_to_wchar(buf,m)", WC, M_ARG, 0, 0, return R(ST::utf32_to_wchar(ST::utf32_buffer(p, n), m)););
    RT(T32, "utf32_to_wchar(p,n)", WC, M_DFLT, 0, 0, return R(ST::utf32_to_wchar(p, n)););
    RT(T32, "utf32_to_latin_1(p,n,m,s)", L1, M_ARG, 1, 0, return R(ST::utf32_to_latin_1(p, n, m, sb)););
    RT(T32, "utf32_to_latin_1(buf,m,s)", L1, M_ARG, 1, 0, return R(ST::utf32_to_latin_1(ST::utf32_buffer(p, n), m, sb)););
    RT(T32, "utf32_to_latin_1(p,n)", L1, M_DFLT, 0, 0, return R(ST::utf32_to_latin_1(p, n)););
    RT(T32, "_stbuf(p32,n)", U32, M_ASSUME, 0, 0, return R(ST::literals::operator""_stbuf(p, n)););
    CH(T32, "chain 32-8-16-32", U32, return R(ST::utf16_to_utf32(ST::utf8_to_utf16(ST::utf32_to_utf8(p, n, m), m), m)););
    CH(T32, "chain 32-16-8-32", U32, return R(ST::utf8_to_utf32(ST::utf16_to_utf8(ST::utf32_to_utf16(p, n, m), m), m)););
    CH(T32, "chain 32-string-32", U32, return R(string(p, n, m).to_utf32()););

    // ======================= source: wchar_t ===============================
    RT(TW, "wchar_to_utf8(p,n,m)", U8, M_ARG, 0, 0, return R(ST::wchar_to_utf8(p, n, m)););
    RT(TW, "wchar_to_utf8(buf,m)", U8, M_ARG, 0, 0, return R(ST::wchar_to_utf8(ST::wchar_buffer(p, n), m)););
    RT(TW, "wchar_to_utf8(p,n)", U8, M_DFLT, 0, 0, return R(ST::wchar_to_utf8(p, n)););
    RT(TW, "string(pw,n,m)", U8, M_ARG, 0, 0, return R(string(p, n, m)););
    RT(TW, "string(wbuf,m)", U8, M_ARG, 0, 0, return R(string(ST::wchar_buffer(p, n), m)););
    RT(TW, "string(wstring,m)", U8, M_ARG, 0, 0, return R(string(std::wstring(p, n), m)););
    RT(TW, "string(wstring_view,m)", U8, M_ARG, 0, 0, return R(string(std::wstring_view(p, n), m)););
    RT(TW, "set(pw,n,m)", U8, M_ARG, 0, 0, string s("old"); s.set(p, n, m); return R(s););
    RT(TW, "set(wbuf,m)", U8, M_ARG, 0, 0, string s; s.set(ST::wchar_buffer(p, n), m); return R(s););
    RT(TW, "set(wstring,m)", U8, M_ARG, 0, 0, string s; s.set(std::wstring(p, n), m); return R(s););
    RT(TW, "set(wstring_view,m)", U8, M_ARG, 0, 0, string s; s.set(std::wstring_view(p, n), m); return R(s););
    RT(TW, "from_wchar(p,n,m)", U8, M_ARG, 0, 0, return R(string::from_wchar(p, n, m)););
    RT(TW, "from_wchar(buf,m)", U8, M_ARG, 0, 0, return R(string::from_wchar(ST::wchar_buffer(p, n), m)););
    RT(TW, "from_std_string(wstring,m)", U8, M_ARG, 0, 0, return R(string::from_std_string(std::wstring(p, n), m)););
    RT(TW, "from_std_wstring(wstring,m)", U8, M_ARG, 0, 0, return R(string::from_std_wstring(std::wstring(p, n), m)););
    RT(TW, "from_std_string(wstring_view,m)", U8, M_ARG, 0, 0, return R(string::from_std_string(std::wstring_view(p, n), m)););
    RT(TW, "from_std_wstring(wstring_view,m)", U8, M_ARG, 0, 0, return R(string::from_std_wstring(std::wstring_view(p, n), m)););
    RT(TW, "string(pw,n)", U8, M_DFLT, 0, 0, return R(string(p, n)););
    RT(TW, "s=wbuf", U8, M_DFLT, 0, 0, string s; s = ST::wchar_buffer(p, n); return R(s););
    RT(TW, "s=wstring", U8, M_DFLT, 0, 0, string s; s = std::wstring(p, n); return R(s););
    RT(TW, "s=wstring_view", U8, M_DFLT, 0, 0, string s; s = std::wstring_view(p, n); return R(s););
    RT(TW, "string(zw)", U8, M_DFLT, 0, 1, return R(string(p)););
    RT(TW, "s=zw", U8, M_DFLT, 0, 1, string s; s = p; return R(s););
    RT(TW, "set(zw)", U8, M_DFLT, 0, 1, string s; s.set(p); return R(s););
    RT(TW, "from_wchar(zw)", U8, M_DFLT, 0, 1, return R(string::from_wchar(p)););
    RT(TW, "string()+zw", U8, M_DFLT, 0, 1, return R(string() + p););
    RT(TW, "zw+string()", U8, M_DFLT, 0, 1, return R(p + string()););
    RT(TW, "s+=zw", U8, M_DFLT, 0, 1, string s; s += p; return R(s););
    RT(TW, "_st(pw,n)", U8, M_ASSUME, 0, 0, return R(ST::literals::operator""_st(p, n)););
    RT(TW, "string_stream<<zw", U8, M_DFLT, 0, 1, ST::string_stream ss; ss << p; return R(ss.to_string(true, ST::assume_valid)););
    RT(TW, "wchar_to_utf16(p,n,m)", U16, M_ARG, 0, 0, return R(ST::wchar_to_utf16(p, n, m)););
    RT(TW, "wchar_to_utf16(buf,m)", U16, M_ARG, 0, 0, return R(ST::wchar_to_utf16(ST::wchar_buffer(p, n), m)););
    RT(TW, "wchar_to_utf32(p,n,m)", U32, M_ARG, 0, 0, return R(ST::wchar_to_utf32(p, n, m)););
    RT(TW, "wchar_to_utf32(buf,m)", U32, M_ARG, 0, 0, return R(ST::wchar_to_utf32(ST::wchar_buffer(p, n), m)););
    RT(TW, "wchar_to_latin_1(p,n,m,s)", L1, M_ARG, 1, 0, return R(ST::wchar_to_latin_1(p, n, m, sb)););
    RT(TW, "wchar_to_latin_1(buf,m,s)", L1, M_ARG, 1, 0, return R(ST::wchar_to_latin_1(ST::wchar_buffer(p, n), m, sb)););
    RT(TW, "_stbuf(pw,n)", WC, M_ASSUME, 0, 0, return R(ST::literals::operator""_stbuf(p, n)););
    CH(TW, "chain wc-8-wc", WC, return R(ST::utf8_to_wchar(ST::wchar_to_utf8(p, n, m), m)););
    CH(TW, "chain wc-16-32-wc", WC, return R(ST::utf32_to_wchar(ST::utf16_to_utf32(ST::wchar_to_utf16(p, n, m), m), m)););
    CH(TW, "chain wc-string-wc", WC, return R(string(p, n, m).to_wchar()););

    // ======================= source: Latin-1 ===============================
    RT(TL, "latin_1_to_utf8(p,n)", U8, M_DFLT, 0, 0, return R(ST::latin_1_to_utf8(p, n)););
    RT(TL, "latin_1_to_utf8(buf)", U8, M_DFLT, 0, 0, return R(ST::latin_1_to_utf8(ST::char_buffer(p, n))););
    RT(TL, "from_latin_1(p,n)", U8, M_DFLT, 0, 0, return R(string::from_latin_1(p, n)););
    RT(TL, "from_latin_1(buf)", U8, M_DFLT, 0, 0, return R(string::from_latin_1(ST::char_buffer(p, n))););
    RT(TL, "from_latin_1(z)", U8, M_DFLT, 0, 1, return R(string::from_latin_1(p)););
    RT(TL, "string_stream.append.to_string(false)", U8, M_DFLT, 0, 0, ST::string_stream ss; ss.append(p, n); return R(ss.to_string(false)););
    RT(TL, "latin_1_to_utf16(p,n)", U16, M_DFLT, 0, 0, return R(ST::latin_1_to_utf16(p, n)););
    RT(TL, "latin_1_to_utf16(buf)", U16, M_DFLT, 0, 0, return R(ST::latin_1_to_utf16(ST::char_buffer(p, n))););
    RT(TL, "latin_1_to_utf32(p,n)", U32, M_DFLT, 0, 0, return R(ST::latin_1_to_utf32(p, n)););
    RT(TL, "latin_1_to_utf32(buf)", U32, M_DFLT, 0, 0, return R(ST::latin_1_to_utf32(ST::char_buffer(p, n))););
    RT(TL, "latin_1_to_wchar(p,n)", WC, M_DFLT, 0, 0, return R(ST::latin_1_to_wchar(p, n)););
    RT(TL, "latin_1_to_wchar(buf)", WC, M_DFLT, 0, 0, return R(ST::latin_1_to_wchar(ST::char_buffer(p, n))););
    CH(TL, "chain l1-8-l1", L1, return R(ST::utf8_to_latin_1(ST::latin_1_to_utf8(p, n), m, false)););
    CH(TL, "chain l1-16-l1", L1, return R(ST::utf16_to_latin_1(ST::latin_1_to_utf16(p, n), m, false)););
    CH(TL, "chain l1-32-l1", L1, return R(ST::utf32_to_latin_1(ST::latin_1_to_utf32(p, n), m, false)););
    CH(TL, "chain l1-wc-l1", L1, return R(ST::wchar_to_latin_1(ST::latin_1_to_wchar(p, n), m, false)););
    CH(TL, "chain l1-string-l1", L1, return R(string::from_latin_1(p, n).to_latin_1(false)););
}

// ---------------------------------------------------------------------------
static utf_validation_t kModes[3] = {ST::assume_valid, ST::substitute_invalid, ST::check_validity};
static bool g_verbose = false;
static long long g_calls = 0;

template <class T>
static Res call_once(const Route<T> &r, const T *p, size_t n, utf_validation_t m, bool sb, unsigned char fill) {
    alloc_state().fill = fill;
    Res out;
    try { out = r.fn(p, n, m, sb); }
    catch (const ST::unicode_error &e) { out.res = "unicode_error"; out.what = e.what(); }
    catch (const assert_failure &a) { out.res = "assert"; out.what = a.message; }
    catch (const std::exception &e) { out.res = demangle(typeid(e).name()); out.what = e.what(); }
    catch (...) { out.res = "unknown_exception"; }
    ++g_calls;
    return out;
}

struct Group { std::string head; int nr = 0; int r0 = 0; std::vector<std::string> modes; std::vector<std::string> names; };

// Run all routes of table `tbl` on input (p,n); src names the encoding of the
// input as the spec sees it; srcw tells whether the input was passed as wchar_t.
template <class T>
static void run_input(long long index, const Table<T> &tbl, Enc src, const T *p, size_t n,
                      const std::string *claim /* JSON scalars or null */, bool has_nul, bool null_input = false) {
    Exact<T> ex(p, n);
    // terminated copy for the C-string routes
    std::vector<T> zt(p, p + n); zt.push_back(0);
    Exact<T> exz(zt.data(), zt.size());

    Out hdr;
    hdr.s("{").k("e").q("Conv").c(',').k("i").i(index).c(',').k("src").q(enc_name[src]).c(',').k("in");
    put_units(hdr, p, n);
    if (claim) hdr.c(',').k("sc").s(*claim);
    if (null_input) hdr.c(',').k("null").i(1);
    set_cur(index, hdr.b + "}");

    std::map<std::string, Group> groups;
    std::vector<std::string> order;
    for (const Route<T> &r : tbl.v) {
        if (r.cstr && has_nul) continue;
        if (r.chain && !claim) continue;
        if (null_input && !(r.name.find("(p,n") != std::string::npos || r.name.find("(p16,n") != std::string::npos
                            || r.name.find("(p32,n") != std::string::npos || r.name.find("(pw,n") != std::string::npos
                            || r.name.find("(c8,n") != std::string::npos)) continue;
        const T *ip = null_input ? nullptr : r.cstr ? exz.p : ex.p;
        int nm = r.mkind == M_ARG ? 3 : 1;
        for (int mi = 0; mi < nm; ++mi) {
            utf_validation_t m = kModes[mi];
            for (int sbi = 0; sbi < (r.sub ? 2 : 1); ++sbi) {
                bool sb = r.sub ? (sbi == 1) : true;
                // A string built with substitute_invalid holds U+FFFD characters; reading it back as
                // Latin-1 without out-of-range substitution is a different question from the direct call.
                if (!sb && m == ST::substitute_invalid && r.dst == L1 && r.name.compare(0, 14, "string(p,n,m).") == 0) continue;
                Res a = call_once(r, ip, n, m, sb, 0xA5);
                Res b = call_once(r, ip, n, m, sb, 0x5A);
                int det = (a.res == b.res && a.units == b.units && a.n == b.n && a.z == b.z) ? 1 : 0;
                const char *mname = r.mkind == M_ARG ? mode_name(m) : r.mkind == M_DFLT ? "dflt" : "assume";
                Out g;
                g.s("{").k("d").q(enc_name[r.dst]).c(',').k("s").i(sb ? 1 : 0).c(',').k("c").i(r.chain ? 1 : 0).c(',').k("res").q(a.res);
                if (a.res == "ok") g.c(',').k("out").s(a.units).c(',').k("n").i(a.n).c(',').k("z").i(a.z).c(',').k("det").i(det);
                else g.c(',').k("out").s("[]").c(',').k("what").q(a.what);
                auto it = groups.find(g.b);
                if (it == groups.end()) { order.push_back(g.b); it = groups.emplace(g.b, Group()).first; it->second.head = g.b; it->second.r0 = (int)(&r - &tbl.v[0]); }
                Group &G = it->second;
                G.nr++;
                if (std::find(G.modes.begin(), G.modes.end(), std::string(mname)) == G.modes.end()) G.modes.push_back(mname);
                if (g_verbose) G.names.push_back(r.name + std::string("/") + mname);
            }
        }
    }
    Out &o = out();
    o.s(hdr.b).c(',').k("g").c('[');
    bool first = true;
    for (const std::string &key : order) {
        const Group &G = groups[key];
        if (!first) o.c(','); first = false;
        o.s(G.head).c(',').k("ms").c('[');
        for (size_t j = 0; j < G.modes.size(); ++j) { if (j) o.c(','); o.q(G.modes[j]); }
        o.c(']').c(',').k("nr").i(G.nr).c(',').k("r").i(G.r0);
        if (g_verbose) { o.c(',').k("routes").c('['); for (size_t j = 0; j < G.names.size(); ++j) { if (j) o.c(','); o.q(G.names[j]); } o.c(']'); }
        o.c('}');
    }
    o.s("]}\n");
    o.maybe_flush();
}

// ------------------------------------------------------------- generators ---
struct Shard { long long idx = 0, shard = 0, nshards = 1, from = 0, to = -1; long long emitted = 0;
    bool take() { long long i = idx++; if (i % nshards != shard) return false; if (i < from) return false; if (to >= 0 && i >= to) return false; return true; } };
static Shard S;

static bool is_scalar(uint32_t c) { return c <= 0x10FFFF && !(c >= 0xD800 && c <= 0xDFFF); }

static void enc8(std::string &o, uint32_t c) {
    if (c < 0x80) o += (char)c;
    else if (c < 0x800) { o += (char)(0xC0 | (c >> 6)); o += (char)(0x80 | (c & 0x3F)); }
    else if (c < 0x10000) { o += (char)(0xE0 | (c >> 12)); o += (char)(0x80 | ((c >> 6) & 0x3F)); o += (char)(0x80 | (c & 0x3F)); }
    else { o += (char)(0xF0 | (c >> 18)); o += (char)(0x80 | ((c >> 12) & 0x3F)); o += (char)(0x80 | ((c >> 6) & 0x3F)); o += (char)(0x80 | (c & 0x3F)); }
}
static void enc16(std::u16string &o, uint32_t c) {
    if (c < 0x10000) o += (char16_t)c;
    else { c -= 0x10000; o += (char16_t)(0xD800 + (c >> 10)); o += (char16_t)(0xDC00 + (c & 0x3FF)); }
}

// feed one scalar sequence through every source encoding
static void feed_scalars(const std::vector<uint32_t> &sc, bool all_srcs = true) {
    Out cj; cj.c('['); for (size_t j = 0; j < sc.size(); ++j) { if (j) cj.c(','); cj.i(sc[j]); } cj.c(']');
    bool nul = std::find(sc.begin(), sc.end(), 0u) != sc.end();
    bool lat = true; for (uint32_t c : sc) if (c > 255) lat = false;
    if (S.take()) { std::string u; for (uint32_t c : sc) enc8(u, c); run_input(S.idx - 1, T8, U8, u.data(), u.size(), &cj.b, nul); }
    if (!all_srcs) return;
    if (S.take()) { std::u16string u; for (uint32_t c : sc) enc16(u, c); run_input(S.idx - 1, T16, U16, u.data(), u.size(), &cj.b, nul); }
    if (S.take()) { std::u32string u; for (uint32_t c : sc) u += (char32_t)c; run_input(S.idx - 1, T32, U32, u.data(), u.size(), &cj.b, nul); }
    if (S.take()) {
        std::wstring u;
        if (sizeof(wchar_t) == 4) for (uint32_t c : sc) u += (wchar_t)c;
        else { std::u16string t; for (uint32_t c : sc) enc16(t, c); for (char16_t x : t) u += (wchar_t)x; }
        run_input(S.idx - 1, TW, WC, u.data(), u.size(), &cj.b, nul);
    }
    if (lat && S.take()) { std::string u; for (uint32_t c : sc) u += (char)c; run_input(S.idx - 1, TL, L1, u.data(), u.size(), &cj.b, nul); }
}

static std::vector<long long> parse_list(const char *s) {
    std::vector<long long> v; if (!s) return v;
    while (*s) { char *e; long long x = strtoll(s, &e, 0); if (e == s) break; v.push_back(x); s = e; if (*s == ',') ++s; }
    return v;
}

static const uint32_t kCtx[] = {0x41, 0xE9, 0x20AC, 0x1F600};

// scalars lo..hi (step) alone and inside contexts (prefix p / suffix s from kCtx)
static void gen_scalars(long long lo, long long hi, long long step, int ctxmode) {
    for (long long c = lo; c < hi; c += step) {
        if (!is_scalar((uint32_t)c)) continue;
        feed_scalars({(uint32_t)c});
        if (ctxmode >= 1) {
            // rotating context: one prefix and one suffix per scalar, all 16 pairs over 16 consecutive scalars
            uint32_t p = kCtx[(c >> 2) & 3], s = kCtx[c & 3];
            feed_scalars({p, (uint32_t)c, s});
        }
        if (ctxmode >= 2) {
            for (uint32_t p : kCtx) { feed_scalars({p, (uint32_t)c}); feed_scalars({(uint32_t)c, p}); }
            for (uint32_t p : kCtx) for (uint32_t s : kCtx) feed_scalars({p, (uint32_t)c, s});
        }
    }
}

// all sequences over a scalar alphabet up to maxlen
static void gen_scalar_seqs(const std::vector<long long> &alpha, int maxlen) {
    std::vector<uint32_t> cur;
    std::function<void(int)> rec = [&](int len) {
        if ((int)cur.size() == len) { feed_scalars(cur); return; }
        for (long long a : alpha) { cur.push_back((uint32_t)a); rec(len); cur.pop_back(); }
    };
    for (int len = 0; len <= maxlen; ++len) rec(len);
}

// long texts (C01/C03): runs of one scalar and alternations of two, at lengths around every power of two up
// to 256 units and around the small-string limits - size arithmetic, fast paths and fixed-size scratch
// buffers depend on the length and on how many units each character takes
static void gen_runs(const std::vector<long long> &alpha) {
    static const int lens[] = {7, 8, 11, 12, 13, 15, 16, 17, 23, 31, 32, 33, 40, 47, 48, 49, 63, 64, 65, 95, 96, 97, 127, 128, 129, 255, 256, 257};
    for (long long a : alpha) for (int n : lens) { std::vector<uint32_t> sc((size_t)n, (uint32_t)a); feed_scalars(sc); }
    for (size_t i = 0; i + 1 < alpha.size(); ++i) for (int n : {16, 33, 48, 64, 100}) {
        std::vector<uint32_t> sc; for (int k = 0; k < n; ++k) sc.push_back((uint32_t)alpha[(k & 1) ? i + 1 : i]); feed_scalars(sc);
    }
}

// Inputs close to the documented limit of 256 Mi code units (C03: "for every input of fewer than 256 Mi code units"):
// the event carries sizes and the first/last unit only.
template <class T, class F> static void op_huge(const char *src, const char *dst, size_t n, F conv) {
    if (!S.take()) return;
    Out h; h.s("{").k("e").q("Huge").c(',').k("i").i(S.idx - 1).c(',').k("src").q(src).c(',').k("dst").q(dst).c(',').k("n").i((long long)n);
    set_cur(S.idx - 1, h.b + "}");
    size_t saved = alloc_state().max_block; alloc_state().max_block = (size_t)3 << 30;
    int saved_wd = wd_limit(); wd_limit() = 120;
    T *p = (T *)malloc(n * sizeof(T));
    if (!p) { alloc_state().max_block = saved; wd_limit() = saved_wd; return; }     // not enough memory here: nothing executed, nothing recorded
    for (size_t i = 0; i < n; ++i) p[i] = (T)'a';
    Out &o = out();
    o.s(h.b);
    try {
        auto r = conv(p, n);
        o.c(',').k("res").q("ok").c(',').k("size").i((long long)r.size()).c(',').k("first").i((long long)(unsigned long)r.data()[0])
         .c(',').k("last").i((long long)(unsigned long)r.data()[r.size() ? r.size() - 1 : 0]).c(',').k("z").i((long long)(unsigned long)r.data()[r.size()]);
    }
    catch (const ST::unicode_error &) { o.c(',').k("res").q("unicode_error"); }
    catch (const std::bad_alloc &) { o.c(',').k("res").q("bad_alloc"); }
    catch (const assert_failure &a) { o.c(',').k("res").q("assert"); }
    catch (const std::exception &) { o.c(',').k("res").q("other"); }
    o.s("}\n"); o.flush();
    free(p);
    alloc_state().max_block = saved; wd_limit() = saved_wd;
}
static void gen_huge() {
    const size_t Mi = (size_t)1 << 20;
    op_huge<char16_t>("utf16", "utf8", 128 * Mi + 5, [](const char16_t *p, size_t n) { return ST::utf16_to_utf8(p, n, ST::check_validity); });
    op_huge<char32_t>("utf32", "utf8", 64 * Mi + 5, [](const char32_t *p, size_t n) { return ST::utf32_to_utf8(p, n, ST::check_validity); });
    op_huge<wchar_t>("wchar", "utf8", 64 * Mi + 7, [](const wchar_t *p, size_t n) { return ST::wchar_to_utf8(p, n, ST::substitute_invalid); });
    op_huge<char16_t>("utf16", "latin1", 200 * Mi, [](const char16_t *p, size_t n) { return ST::utf16_to_latin_1(p, n, ST::check_validity); });
    op_huge<char>("utf8", "latin1", 255 * Mi, [](const char *p, size_t n) { return ST::utf8_to_latin_1(p, n, ST::check_validity); });
}

template <class T> static void feed_units(const Table<T> &tbl, Enc src, const std::vector<long long> &u) {
    if (!S.take()) return;
    std::vector<T> v; bool nul = false;
    for (long long x : u) { v.push_back((T)(unsigned long long)x); if (x == 0) nul = true; }
    run_input(S.idx - 1, tbl, src, v.data(), v.size(), nullptr, nul);
}
static void feed_any(const std::string &src, const std::vector<long long> &u) {
    if (src == "utf8") feed_units(T8, U8, u);
    else if (src == "utf16") feed_units(T16, U16, u);
    else if (src == "utf32") feed_units(T32, U32, u);
    else if (src == "wchar") feed_units(TW, WC, u);
    else if (src == "latin1") feed_units(TL, L1, u);
}

// all unit sequences over an alphabet with minlen <= length <= maxlen
static void gen_units(const std::string &src, const std::vector<long long> &alpha, int minlen, int maxlen) {
    std::vector<long long> cur;
    std::function<void(int)> rec = [&](int len) {
        if ((int)cur.size() == len) { feed_any(src, cur); return; }
        for (long long a : alpha) { cur.push_back(a); rec(len); cur.pop_back(); }
    };
    for (int len = minlen; len <= maxlen; ++len) rec(len);
}

// well-formed text with malformed units spliced in, and truncations of it
static void gen_random(long long count, uint64_t seed, int maxlen) {
    Rng rng(seed);
    static const uint32_t pool[] = {0, 0x41, 0x7F, 0x80, 0xE9, 0xFF, 0x100, 0x7FF, 0x800, 0x20AC, 0xD7FF, 0xE000, 0xFFFD, 0xFFFF, 0x10000, 0x1F600, 0x10FFFF};
    for (long long k = 0; k < count; ++k) {
        int len = 1 + (int)rng.below(maxlen);
        std::vector<uint32_t> sc;
        for (int j = 0; j < len; ++j) {
            uint32_t c = rng.below(4) ? pool[rng.below(sizeof pool / sizeof *pool)] : (uint32_t)rng.below(0x110000);
            if (!is_scalar(c)) c = 0x41;
            sc.push_back(c);
        }
        int kind = (int)rng.below(8);
        if (kind == 0) { feed_scalars(sc); continue; }
        int which = (int)rng.below(3);
        if (which == 0) {
            std::string u; for (uint32_t c : sc) enc8(u, c);
            std::vector<long long> v(u.begin(), u.end()); for (auto &x : v) x &= 0xFF;
            int ops = 1 + (int)rng.below(3);
            for (int o = 0; o < ops && !v.empty(); ++o) {
                size_t pos = rng.below(v.size());
                switch (rng.below(5)) {
                case 0: v.erase(v.begin() + pos); break;                              // drop a unit
                case 1: v.insert(v.begin() + pos, (long long)(0x80 + rng.below(0x80))); break; // stray byte
                case 2: v[pos] = (long long)rng.below(256); break;                    // corrupt
                case 3: v.resize(pos); break;                                         // truncate
                case 4: v.insert(v.begin() + pos, (long long)(0xC0 + rng.below(0x40))); break; // stray lead
                }
            }
            feed_any("utf8", v);
        } else if (which == 1) {
            std::u16string u; for (uint32_t c : sc) enc16(u, c);
            std::vector<long long> v(u.begin(), u.end());
            int ops = 1 + (int)rng.below(3);
            for (int o = 0; o < ops && !v.empty(); ++o) {
                size_t pos = rng.below(v.size());
                switch (rng.below(4)) {
                case 0: v.erase(v.begin() + pos); break;
                case 1: v.insert(v.begin() + pos, (long long)(0xD800 + rng.below(0x800))); break;
                case 2: v[pos] = (long long)rng.below(65536); break;
                case 3: v.resize(pos); break;
                }
            }
            feed_any("utf16", v);
        } else {
            std::vector<long long> v(sc.begin(), sc.end());
            int ops = 1 + (int)rng.below(3);
            for (int o = 0; o < ops && !v.empty(); ++o) {
                size_t pos = rng.below(v.size());
                switch (rng.below(3)) {
                case 0: v[pos] = (long long)(0x110000 + rng.below(16)); break;
                case 1: v[pos] = (long long)(rng.next() & 0xFFFFFFFFull); break;
                case 2: v[pos] = (long long)(0xD800 + rng.below(0x800)); break;
                }
            }
            feed_any(rng.below(2) ? "utf32" : "wchar", v);
        }
    }
}

// every byte as Latin-1 in first / interior / last position
static void gen_latin1() {
    for (uint32_t b = 0; b < 256; ++b) {
        feed_scalars({b}); feed_scalars({0x41, b}); feed_scalars({b, 0xE9}); feed_scalars({0xE9, b, 0x41}); feed_scalars({b, b});
        feed_scalars({0xFF, b, 0x80});
    }
    // longer Latin-1 texts with one high byte at every position (word-at-a-time measuring, block copies)
    for (int n : {7, 8, 9, 15, 16, 17, 24, 31, 32, 33}) for (int pos = 0; pos < n; ++pos) for (uint32_t hb : {0x80u, 0xE9u, 0xFFu}) {
        std::vector<uint32_t> sc((size_t)n, 0x41); sc[(size_t)pos] = hb; feed_scalars(sc);
        if (pos + 1 < n) { sc[(size_t)pos + 1] = 0xC3; feed_scalars(sc); }
    }
}

// well-formed text cut at every unit, in every source encoding; plus (nullptr, 0)
template <class T> static void feed_cuts(const Table<T> &tbl, Enc src, const std::basic_string<T> &u) {
    for (size_t cut = 0; cut <= u.size(); ++cut) {
        if (!S.take()) continue;
        bool nul = false; for (size_t j = 0; j < cut; ++j) if (u[j] == 0) nul = true;
        run_input(S.idx - 1, tbl, src, u.data(), cut, nullptr, nul);
    }
}
static void gen_trunc(const std::vector<long long> &alpha, int maxlen) {
    if (S.take()) run_input(S.idx - 1, T8, U8, (const char *)nullptr, 0, nullptr, false, true);
    if (S.take()) run_input(S.idx - 1, T16, U16, (const char16_t *)nullptr, 0, nullptr, false, true);
    if (S.take()) run_input(S.idx - 1, T32, U32, (const char32_t *)nullptr, 0, nullptr, false, true);
    if (S.take()) run_input(S.idx - 1, TW, WC, (const wchar_t *)nullptr, 0, nullptr, false, true);
    if (S.take()) run_input(S.idx - 1, TL, L1, (const char *)nullptr, 0, nullptr, false, true);
    std::vector<uint32_t> cur;
    std::function<void(int)> rec = [&](int len) {
        if ((int)cur.size() == len) {
            std::string u8; std::u16string u16; std::u32string u32; std::wstring uw;
            for (uint32_t c : cur) { enc8(u8, c); enc16(u16, c); u32 += (char32_t)c; }
            if (sizeof(wchar_t) == 4) for (uint32_t c : cur) uw += (wchar_t)c; else for (char16_t x : u16) uw += (wchar_t)x;
            feed_cuts(T8, U8, u8); feed_cuts(T16, U16, u16); feed_cuts(T32, U32, u32); feed_cuts(TW, WC, uw);
            return;
        }
        for (long long a : alpha) { cur.push_back((uint32_t)a); rec(len); cur.pop_back(); }
    };
    for (int len = 1; len <= maxlen; ++len) rec(len);
}

// replay: lines "src u1,u2,..." (32-bit units as plain numbers)
static void gen_file(const char *path) {
    FILE *f = fopen(path, "r"); if (!f) { perror(path); exit(2); }
    char line[65536];
    while (fgets(line, sizeof line, f)) {
        char src[32]; int off = 0;
        if (sscanf(line, "%31s %n", src, &off) < 1) continue;
        if (!strcmp(src, "scalars")) { std::vector<uint32_t> sc; for (long long x : parse_list(line + off)) sc.push_back((uint32_t)x); feed_scalars(sc); }
        else feed_any(src, parse_list(line + off));
    }
    fclose(f);
}

int main(int argc, char **argv) {
    install_handlers();
    _ST_PRIVATE::verif_assert_hook() = assert_hook;
    build_tables();

    std::string gen = "scalars", src = "utf8", file;
    long long lo = 0, hi = 0x800, step = 1, count = 1000; int ctx = 0, minlen = 0, maxlen = 3; std::vector<long long> alpha;
    uint64_t seed = (uint64_t)env_ll("VERIF_SEED", 1);
    for (int a = 1; a < argc; ++a) {
        std::string k = argv[a]; const char *v = a + 1 < argc ? argv[a + 1] : "";
        if (k == "--gen") { gen = v; ++a; } else if (k == "--src") { src = v; ++a; }
        else if (k == "--lo") { lo = strtoll(v, 0, 0); ++a; } else if (k == "--hi") { hi = strtoll(v, 0, 0); ++a; }
        else if (k == "--step") { step = strtoll(v, 0, 0); ++a; } else if (k == "--ctx") { ctx = atoi(v); ++a; }
        else if (k == "--alpha") { alpha = parse_list(v); ++a; } else if (k == "--maxlen") { maxlen = atoi(v); ++a; }
        else if (k == "--minlen") { minlen = atoi(v); ++a; }
        else if (k == "--count") { count = strtoll(v, 0, 0); ++a; } else if (k == "--seed") { seed = strtoull(v, 0, 0); ++a; }
        else if (k == "--shard") { sscanf(v, "%lld/%lld", &S.shard, &S.nshards); ++a; }
        else if (k == "--from") { S.from = strtoll(v, 0, 0); ++a; } else if (k == "--to") { S.to = strtoll(v, 0, 0); ++a; }
        else if (k == "--file") { file = v; ++a; } else if (k == "--verbose") g_verbose = true;
        else { fprintf(stderr, "unknown arg %s\n", k.c_str()); return 2; }
    }
    Out &o = out();
    o.s("{").k("e").q("Platform").c(',').k("i").i(-1).c(',').k("wchar_bits").i(sizeof(wchar_t) * 8)
     .c(',').k("dflt").q(mode_name(ST_DEFAULT_VALIDATION))
     .c(',').k("routes").i((long long)(T8.v.size() + T16.v.size() + T32.v.size() + TW.v.size() + TL.v.size())).s("}\n");

    if (gen == "scalars") gen_scalars(lo, hi, step, ctx);
    else if (gen == "scalarseqs") gen_scalar_seqs(alpha, maxlen);
    else if (gen == "runs") gen_runs(alpha);
    else if (gen == "huge") gen_huge();
    else if (gen == "units") gen_units(src, alpha, minlen, maxlen);
    else if (gen == "random") gen_random(count, seed, maxlen);
    else if (gen == "file") gen_file(file.c_str());
    else if (gen == "latin1") gen_latin1();
    else if (gen == "trunc") gen_trunc(alpha, maxlen);
    else { fprintf(stderr, "unknown generator\n"); return 2; }
    o.flush();
    fprintf(stderr, "exec_conv: inputs=%lld calls=%lld\n", S.idx, g_calls);
    return 0;
}
