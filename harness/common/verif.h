// Common recording machinery for the executors.  An executor runs calls on the
// real library and RECORDS what happened (ndjson); it never judges a result.
// The TLA+ trace specifications (spec/Trace*.tla), evaluated by TLC, are the
// only oracle.
#ifndef VERIF_COMMON_H
#define VERIF_COMMON_H

#include <cstdio>
#include <cstdlib>
#include <cstring>
#include <cstdint>
#include <csignal>
#include <string>
#include <vector>
#include <new>
#include <exception>
#include <stdexcept>
#include <typeinfo>
#include <unistd.h>
#include <sys/time.h>
#include <cxxabi.h>
#include <atomic>

namespace vf {

// ---------------------------------------------------------------- output ---
struct Out {
    FILE *f = stdout;
    std::string b;
    void flush() { if (!b.empty()) { fwrite(b.data(), 1, b.size(), f); b.clear(); } fflush(f); }
    void maybe_flush() { if (b.size() > (1u << 20)) flush(); }
    Out &s(const char *t) { b += t; return *this; }
    Out &s(const std::string &t) { b += t; return *this; }
    Out &c(char ch) { b += ch; return *this; }
    Out &i(long long v) { char t[32]; int n = snprintf(t, sizeof t, "%lld", v); b.append(t, n); return *this; }
    // JSON string with escaping
    Out &q(const std::string &t) {
        b += '"';
        for (unsigned char ch : t) {
            if (ch == '"' || ch == '\\') { b += '\\'; b += (char)ch; }
            else if (ch < 0x20 || ch >= 0x7f) { char u[8]; snprintf(u, sizeof u, "\\u%04x", ch); b += u; }
            else b += (char)ch;
        }
        b += '"';
        return *this;
    }
    Out &k(const char *key) { b += '"'; b += key; b += "\":"; return *this; }
};
inline Out &out() { static Out o; return o; }

// Units.  8/16-bit units are plain integers, 32-bit units are [hi16,lo16]
// (TLC integers are 32-bit signed and the JSON reader wraps silently).
inline void put_unit(Out &o, unsigned char u) { o.i(u); }
inline void put_unit(Out &o, char u) { o.i((unsigned char)u); }
inline void put_unit(Out &o, char16_t u) { o.i(u); }
inline void put_unit(Out &o, char32_t u) { o.c('[').i(u >> 16).c(',').i(u & 0xFFFF).c(']'); }
inline void put_unit(Out &o, wchar_t u) {
    if (sizeof(wchar_t) == 4) put_unit(o, (char32_t)u); else o.i((char16_t)u);
}
template <class T> void put_units(Out &o, const T *p, size_t n) {
    o.c('[');
    for (size_t j = 0; j < n; ++j) { if (j) o.c(','); put_unit(o, p[j]); }
    o.c(']');
}
inline void put_bytes(Out &o, const std::string &s) { put_units(o, s.data(), s.size()); }
// 64-bit quantity as little-endian 16-bit limbs
inline void put_limbs(Out &o, unsigned long long v) {
    o.c('[').i(v & 0xFFFF).c(',').i((v >> 16) & 0xFFFF).c(',').i((v >> 32) & 0xFFFF).c(',').i((v >> 48) & 0xFFFF).c(']');
}

// ------------------------------------------------------- current-step note ---
// What is running right now; written into an Abnormal event if the process
// dies (sanitizer report, abort, signal, watchdog) during the step.
struct Cur {
    char desc[65536];
    volatile long long index = -1;     // input / step index
    std::atomic<unsigned long long> ticks{0};   // read by the watchdog signal handler, possibly on another thread
};
inline Cur &cur() { static Cur c; return c; }
inline void set_cur(long long index, const std::string &desc) {
    Cur &c = cur();
    c.index = index;
    if (desc.size() < sizeof(c.desc) - 1) { memcpy(c.desc, desc.data(), desc.size()); c.desc[desc.size()] = 0; }
    else snprintf(c.desc, sizeof c.desc, "{\"i\":%lld,\"truncated\":1}", index);   // keep the Abnormal event valid JSON
    c.ticks.fetch_add(1, std::memory_order_relaxed);
}

inline void emit_abnormal(const char *kind, const char *detail) {
    // The process is dying, possibly inside malloc or stdio (sanitizer report, signal): no allocation and
    // no stdio here - the pending complete lines and the event are written with write(2).
    Out &o = out();
    int fd = fileno(o.f);
    size_t nl = o.b.rfind('\n');        // a step that dies while its line is being written leaves no fragment
    size_t keep = nl == std::string::npos ? 0 : nl + 1;
    for (size_t off = 0; off < keep; ) { ssize_t w = write(fd, o.b.data() + off, keep - off); if (w <= 0) break; off += (size_t)w; }
    static char ev[sizeof(Cur::desc) + 1024];
    char det[400]; size_t dn = 0;
    for (const char *p = detail ? detail : ""; *p && dn < sizeof det - 8; ++p) {
        unsigned char ch = (unsigned char)*p;
        if (ch == '"' || ch == '\\') { det[dn++] = '\\'; det[dn++] = (char)ch; }
        else if (ch < 0x20 || ch >= 0x7f) det[dn++] = '?';
        else det[dn++] = (char)ch;
    }
    det[dn] = 0;
    int n = snprintf(ev, sizeof ev, "{\"e\":\"Abnormal\",\"i\":%lld,\"kind\":\"%s\",\"detail\":\"%s\",\"during\":%s}\n",
                     (long long)cur().index, kind, det, cur().desc[0] ? cur().desc : "{}");
    if (n > 0) { ssize_t w = write(fd, ev, (size_t)n); (void)w; }
}

extern "C" void __sanitizer_set_death_callback(void (*)(void)) __attribute__((weak));

inline const char *&last_assert() { static const char *m = ""; return m; }

inline void on_signal(int sig) {
    const char *kind = sig == SIGABRT ? "abort" : sig == SIGALRM ? "timeout" : "signal";
    char d[300];
    snprintf(d, sizeof d, "signal %d %s", sig, last_assert());
    emit_abnormal(kind, d);
    _exit(3);
}
inline void on_san_death() { emit_abnormal("sanitizer", "see stderr"); _exit(3); }
inline void on_terminate() {
    std::string what = "terminate";
    if (auto ep = std::current_exception()) {
        try { std::rethrow_exception(ep); }
        catch (const std::exception &e) { what += std::string(": ") + e.what(); }
        catch (...) { what += ": unknown exception"; }
    }
    emit_abnormal("terminate", what.c_str());
    _exit(3);
}

// Watchdog: a 1 Hz timer; if the step counter has not moved for `limit`
// consecutive ticks the step is declared hung.
inline int &wd_limit() { static int l = 10; return l; }
// (the handlers may run on any thread of a multi-threaded executor: their state is atomic)
inline void on_tick(int) {
    static std::atomic<unsigned long long> seen{~0ull}; static std::atomic<int> same{0};
    unsigned long long now = cur().ticks.load(std::memory_order_relaxed);
    if (now == seen.load(std::memory_order_relaxed)) { if (same.fetch_add(1, std::memory_order_relaxed) + 1 >= wd_limit()) on_signal(SIGALRM); }
    else { seen.store(now, std::memory_order_relaxed); same.store(0, std::memory_order_relaxed); }
}
// wall-clock twin: a step blocked without using CPU (e.g. a lock taken by a dying allocator) is a hang too
inline void on_tick_real(int) {
    static std::atomic<unsigned long long> seen{~0ull}; static std::atomic<int> same{0};
    unsigned long long now = cur().ticks.load(std::memory_order_relaxed);
    if (now == seen.load(std::memory_order_relaxed)) { if (same.fetch_add(1, std::memory_order_relaxed) + 1 >= 4 * wd_limit() + 20) on_signal(SIGALRM); }
    else { seen.store(now, std::memory_order_relaxed); same.store(0, std::memory_order_relaxed); }
}

inline void install_handlers() {
    signal(SIGABRT, on_signal); signal(SIGSEGV, on_signal); signal(SIGBUS, on_signal);
    signal(SIGFPE, on_signal); signal(SIGILL, on_signal);
    std::set_terminate(on_terminate);
    if (__sanitizer_set_death_callback) __sanitizer_set_death_callback(on_san_death);
    struct sigaction sa; memset(&sa, 0, sizeof sa); sa.sa_handler = on_tick;
    sigaction(SIGVTALRM, &sa, nullptr);
    struct itimerval tv; tv.it_interval.tv_sec = 1; tv.it_interval.tv_usec = 0; tv.it_value = tv.it_interval;
    setitimer(ITIMER_VIRTUAL, &tv, nullptr);   // CPU time of this process
    struct sigaction sr; memset(&sr, 0, sizeof sr); sr.sa_handler = on_tick_real;
    sigaction(SIGALRM, &sr, nullptr);
    setitimer(ITIMER_REAL, &tv, nullptr);      // wall clock
}

// ------------------------------------------------------------- exceptions ---
struct assert_failure { std::string file; int line; std::string message; };

inline std::string demangle(const char *n) {
    int st = 0; char *d = abi::__cxa_demangle(n, nullptr, nullptr, &st);
    std::string r = (st == 0 && d) ? d : n; free(d); return r;
}

// ------------------------------------------------------------ alloc shim ---
// Replacement global operator new/delete (defined in alloc_shim.inc, included
// by exactly one translation unit of each executor).
struct Block { const char *p; size_t n; long id; bool live; };
struct AllocState {
    unsigned char fill = 0xA5;     // pattern written into every fresh block
    long long count = 0;           // allocations since reset
    long long fail_at = 0;         // fail the k-th allocation from now (0 = never), one shot
    long long live = 0;            // live blocks (all)
    size_t max_block = (size_t)64 << 20;   // larger requests fail with bad_alloc
    bool track = false;            // keep a registry of blocks (pool executors)
    bool inside = false;           // allocations made by the harness itself are not tracked
    bool only_array = false;       // count (and fail) only new[] - the library's own blocks -, not the standard library's operator new
    static const int kMax = 8192;
    Block blocks[kMax]; int nblocks = 0; long next_id = 1;
    int bad_frees = 0;             // delete of a pointer that is not a live tracked block
    void reset_registry() { nblocks = 0; next_id = 1; bad_frees = 0; count = 0; fail_at = 0; }
    // block containing address a (live or freed), or nullptr
    const Block *find(const void *a) const {
        const char *c = (const char *)a;
        for (int i = nblocks - 1; i >= 0; --i)
            if (c >= blocks[i].p && c < blocks[i].p + (blocks[i].n ? blocks[i].n : 1)) return &blocks[i];
        return nullptr;
    }
};
struct Untracked {   // RAII: harness-internal allocations
    bool saved; Untracked();  ~Untracked();
};
AllocState &alloc_state();
inline Untracked::Untracked() : saved(alloc_state().inside) { alloc_state().inside = true; }
inline Untracked::~Untracked() { alloc_state().inside = saved; }

// RNG (xorshift64*), seeded from VERIF_SEED
struct Rng {
    uint64_t s;
    explicit Rng(uint64_t seed) : s(seed * 0x9E3779B97F4A7C15ull + 0x1234567ull) { if (!s) s = 1; next(); next(); }
    uint64_t next() { s ^= s >> 12; s ^= s << 25; s ^= s >> 27; return s * 0x2545F4914F6CDD1Dull; }
    uint64_t below(uint64_t n) { return n ? next() % n : 0; }
};

inline long long env_ll(const char *name, long long dflt) {
    const char *v = getenv(name); return v && *v ? atoll(v) : dflt;
}

// exact-size heap copy (no terminator): any read past the end hits a redzone
template <class T> struct Exact {
    T *p; size_t n;
    Exact(const T *src, size_t len) : n(len) {
        p = (T *)malloc(len ? len * sizeof(T) : 1);
        if (len) memcpy(p, src, len * sizeof(T));
    }
    ~Exact() { free(p); }
    Exact(const Exact &) = delete; Exact &operator=(const Exact &) = delete;
};

} // namespace vf
#endif
